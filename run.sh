#!/bin/sh
# Entry point used by MANIFEST.json: ./run.sh <property> <quick|thorough>   |   ./run.sh replay <file>   |   ./run.sh setup
# Everything is rebuilt from /repo's current working tree by the driver (Go build cache keeps that to seconds).
set -u
ROOT="$(cd "$(dirname "$0")" && pwd)"
export VERIF_ROOT="$ROOT"
export GOFLAGS=-mod=mod GOPROXY=off GOSUMDB=off GOTOOLCHAIN=local
GO=${VERIF_GO:-go1.26.8}
mkdir -p "$ROOT/.build" "$ROOT/evidence" "$ROOT/replays"
build_driver() {
  (cd "$ROOT/harness" && $GO build -o "$ROOT/.build/vcheck" ./cmd/vcheck) || { echo "INFRA: cannot build driver" >&2; exit 2; }
}
case "${1:-}" in
  setup)
    build_driver
    # warm the build cache (library with the verif tag, child, checks)
    (cd "$ROOT/harness" && $GO build -tags verif -o "$ROOT/.build/rlapp" ./cmd/rlapp && $GO test -c -tags verif -o "$ROOT/.build/checks.test" ./checks) || { echo "INFRA: warm-up build failed" >&2; exit 2; }
    echo "setup ok"
    ;;
  replay)
    build_driver
    exec "$ROOT/.build/vcheck" replay "$2"
    ;;
  *)
    build_driver
    exec "$ROOT/.build/vcheck" run "$1" --tier "${2:-${VERIF_TIER:-quick}}"
    ;;
esac
