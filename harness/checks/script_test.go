package checks

import (
	"fmt"
	"os"
	"sort"
	"strconv"
	"strings"
	"sync"

	"pgregory.net/rapid"

	"verif/harness/proto"
	"verif/harness/rig"
)

// Shared machinery of the session checks: the description of the tree under
// test (command names, default bind tables), private key sequences that reach
// every command by name, key-token generators and step execution.

// Env is what the child says about the tree under test.
type Env struct {
	Commands []string
	CmdIndex map[string]int
	Binds    map[string]map[string]proto.BindDesc // default configuration, emacs editing mode
}

var (
	envOnce sync.Once
	envVal  *Env
)

func (h *Harness) env() *Env {
	envOnce.Do(func() {
		c := h.Child()
		s, st := c.Start(&proto.Spec{Calls: 1, Describe: true, Inputrc: baseInputrc}, rig.SessionOpts{})
		s.Finish()

		if s.Describe == nil {
			h.t.Fatalf("INFRA: no describe event (%s)", st)
		}

		e := &Env{Commands: s.Describe.Commands, Binds: s.Describe.Binds, CmdIndex: map[string]int{}}
		sort.Strings(e.Commands)

		for i, n := range e.Commands {
			e.CmdIndex[n] = i
		}

		envVal = e
	})

	return envVal
}

// cmdKey is the private sequence bound to command number i: ESC [ 9 NNN ~.
func cmdKey(i int) string { return fmt.Sprintf("\x1b[9%03d~", i) }

// key returns the private sequence of a command name.
func (e *Env) key(name string) string {
	i, ok := e.CmdIndex[name]
	if !ok {
		panic("unknown command " + name)
	}

	return cmdKey(i)
}

// known keeps the names that are registered commands of the tree under test.
func (e *Env) known(names []string) []string {
	out := []string{}

	for _, n := range names {
		if _, ok := e.CmdIndex[n]; ok {
			out = append(out, n)
		}
	}

	if len(out) == 0 {
		out = append(out, "forward-char")
	}

	return out
}

// privateBinds binds every command by name on its private sequence in the
// given keymaps (the way an application or inputrc would: Config.Bind).
func (e *Env) privateBinds(keymaps ...string) []proto.BindSpec {
	out := make([]proto.BindSpec, 0, len(keymaps)*len(e.Commands))

	for _, km := range keymaps {
		for i, n := range e.Commands {
			out = append(out, proto.BindSpec{Keymap: km, Seq: cmdKey(i), Action: n})
		}
	}

	return out
}

func (e *Env) bindNames(names []string, keymaps ...string) []proto.BindSpec {
	out := []proto.BindSpec{}

	for _, km := range keymaps {
		for _, n := range names {
			out = append(out, proto.BindSpec{Keymap: km, Seq: e.key(n), Action: n})
		}
	}

	return out
}

var mainKeymaps = []string{"emacs", "vi-insert", "vi-command"}

// ---------------------------------------------------------------------------
// key strings in cases: stored in Go-quoted form so that any byte survives JSON
// and failing cases stay readable.

type K string

func enc(b []byte) K { s := strconv.Quote(string(b)); return K(s[1 : len(s)-1]) }

func encs(s string) K { return enc([]byte(s)) }

func (k K) dec() []byte {
	s, err := strconv.Unquote(`"` + string(k) + `"`)
	if err != nil {
		panic("bad key string " + string(k) + ": " + err.Error())
	}

	return []byte(s)
}

// Step is one step of a session script.
type Step struct {
	Keys  K      `json:"k,omitempty"`     // bytes delivered as one read
	Cmd   string `json:"cmd,omitempty"`   // instead of Keys: the private sequence of this command name
	Fault string `json:"fault,omitempty"` // eof | ioerr : answer the park with a fault instead
	Note  string `json:"note,omitempty"`  // what the generator meant (command name ...)
}

// ---------------------------------------------------------------------------
// generators

var csiKeys = []string{"\x1b[A", "\x1b[B", "\x1b[C", "\x1b[D", "\x1b[H", "\x1b[F", "\x1b[3~", "\x1b[5~", "\x1b[6~", "\x1b[2~", "\x1b[1~", "\x1b[4~",
	"\x1b[1;5C", "\x1b[1;5D", "\x1b[1;5A", "\x1b[1;5B", "\x1b[3;5~", "\x1b[Z", "\x1bOA", "\x1bOB", "\x1bOC", "\x1bOD", "\x1bOH", "\x1bOF", "\x1b[200~", "\x1b[201~"}

var textWords = []string{"ls", "echo", "foo", "bar", "hello world", "git commit", "(a b)", "\"quoted text\"", "'single'", "{x}", "[y]", "a.b/c-d_e", "  ", " ", "x", "1", "42",
	"if true; then", "日本語", "é", "한", "😀", "a̐", "word1 word2 word3", "--flag=value", "$(cmd)", "`tick`", "\\", "true false", "yes no", "&& ||"}

func genTextChunk(t *rapid.T) string {
	return rapid.SampledFrom(textWords).Draw(t, "word")
}

// genKeyToken draws one key token from the full alphabet.
func genKeyToken(t *rapid.T, e *Env) Step {
	switch rapid.IntRange(0, 19).Draw(t, "tok") {
	case 0, 1, 2:
		return Step{Keys: encs(genTextChunk(t)), Note: "text"}
	case 3, 4:
		c := rapid.IntRange(0x20, 0x7e).Draw(t, "ascii")
		return Step{Keys: enc([]byte{byte(c)}), Note: "char"}
	case 5, 6:
		c := rapid.IntRange(0, 0x1f).Draw(t, "ctl")
		return Step{Keys: enc([]byte{byte(c)}), Note: "control"}
	case 7:
		return Step{Keys: enc([]byte{0x7f}), Note: "DEL"}
	case 8:
		c := rapid.IntRange(0x20, 0x7e).Draw(t, "metac")
		return Step{Keys: enc([]byte{0x1b, byte(c)}), Note: "meta"}
	case 9:
		return Step{Keys: encs(rapid.SampledFrom(csiKeys).Draw(t, "csi")), Note: "csi"}
	case 10, 11, 12, 13:
		name := rapid.SampledFrom(e.Commands).Draw(t, "cmd")
		return Step{Keys: encs(e.key(name)), Note: name}
	case 14: // a command that reads an argument key, with its argument in the next read
		name := rapid.SampledFrom([]string{"quoted-insert", "character-search", "character-search-backward", "vi-find-next-char", "vi-find-prev-char",
			"vi-find-next-char-skip", "vi-find-prev-char-skip", "vi-change-char", "vi-set-buffer", "vi-set-mark", "vi-goto-mark", "vi-select-surround", "vi-add-surround",
			"vi-select-inside", "macro-run", "macro-toggle-record", "vi-replace"}).Draw(t, "argcmd")
		return Step{Keys: encs(e.key(name)), Note: name}
	case 15: // digit argument
		d := rapid.SampledFrom([]string{"\x1b1", "\x1b2", "\x1b-", "\x1b0", "\x1b9", "3", "12", "\x1b1\x1b2"}).Draw(t, "digits")
		return Step{Keys: encs(d), Note: "digits"}
	case 16: // raw high bytes / truncated UTF-8
		b := rapid.SampledFrom([]string{"\x80", "\xff", "\xc3", "\xe6\x97", "\xf0\x9f\x98", "\xa9", "\xc3\xa9", "\xe6\x97\xa5", "\xf0\x9f\x98\x80", "\xfe\xff"}).Draw(t, "raw")
		return Step{Keys: encs(b), Note: "rawbytes"}
	case 17:
		return Step{Keys: encs(rapid.SampledFrom([]string{"\x1b", "\r", "\t", "\t\t", "\x03", "\x07", "\x12", "\x13", "\x18\x28", "\x18\x29", "\x18e", "\x1f", "\x19", "\x0b", "\x15", "\x17"}).Draw(t, "special")), Note: "special"}
	case 18: // vi command keys
		return Step{Keys: encs(rapid.SampledFrom([]string{"d", "c", "y", "w", "b", "e", "0", "$", "x", "p", "P", "u", "v", "V", "i", "a", "A", "I", "o", "O", "r", "f", "t", "F", "T", ";", ",",
			"%", "~", "gg", "G", "ge", "gE", "iw", "aw", "i\"", "a(", "ia", "dd", "yy", "cc", "dw", "cw", "yw", "diw", "ci(", "s", "S", "R", "J", "q", "@", "\"", "m", "`", "|", "^", "_", "n", "N", "/", "?", "#", "*", "."}).Draw(t, "vikey")), Note: "vikey"}
	default:
		return Step{Keys: encs(genTextChunk(t)), Note: "text"}
	}
}

// bytes returns what the step sends.
func (s Step) bytes(e *Env) []byte {
	if s.Cmd != "" {
		return []byte(e.key(s.Cmd))
	}

	return s.Keys.dec()
}

// genPhrase draws a short sequence of steps that enters a deep mode and acts
// there (steering only: no oracle depends on the mode being reached).
func genPhrase(t *rapid.T, e *Env) []Step {
	k := func(s string, note string) Step { return Step{Keys: encs(s), Note: note} }
	motion := func() Step {
		return k(rapid.SampledFrom([]string{"w", "b", "e", "W", "B", "E", "0", "$", "^", "h", "l", "fa", "Fo", "t ", "T ", "%", "ge", "gE", "iw", "aw", "iW", "aW", "i\"", "a\"", "i(", "a(", "i'", "ia", "aa", "j", "k", "3w", "2b", "s\""}).Draw(t, "motion"), "motion")
	}

	switch rapid.IntRange(0, 9).Draw(t, "phrase") {
	case 9: // a numeric argument (negative, zero, large) and then a command that uses one
		arg := rapid.SampledFrom([]string{"-", "-", "-1", "-2", "-3", "-4", "0", "1", "2", "3", "4", "10", "100"}).Draw(t, "argval")
		name := ""

		switch rapid.IntRange(0, 3).Draw(t, "argcmdkind") {
		case 0: // words of history entries
			name = rapid.SampledFrom(e.known([]string{"yank-last-arg", "yank-nth-arg", "insert-last-argument", "yank-last-arg"})).Draw(t, "histarg")
		case 1, 2:
			name = rapid.SampledFrom(e.known(argCommands)).Draw(t, "argcommand")
		default:
			name = rapid.SampledFrom(e.Commands).Draw(t, "anycommand")
		}

		var sb strings.Builder
		for _, ch := range arg {
			sb.WriteString("\x1b" + string(ch))
		}

		out := []Step{k(sb.String(), "numeric-argument"), {Keys: encs(e.key(name)), Note: name}}

		// yank-last-arg repeated walks back through the history
		for i := rapid.IntRange(0, 2).Draw(t, "argrepeat"); i > 0; i-- {
			out = append(out, Step{Keys: encs(e.key(name)), Note: name})
		}

		return out
	case 0: // incremental search
		out := []Step{k(rapid.SampledFrom([]string{"\x12", "\x13"}).Draw(t, "isdir"), "isearch")}
		for i := rapid.IntRange(0, 4).Draw(t, "isn"); i > 0; i-- {
			out = append(out, k(rapid.SampledFrom([]string{"e", "l", "o", "x", "\x12", "\x13", "\x7f", "\x17", "\x15", "\x19", "日", " "}).Draw(t, "iskey"), "isearch-key"))
		}

		return append(out, k(rapid.SampledFrom([]string{"\r", "\x1b", "\x07", "\x03", "\x01", "\x1b[A", "z"}).Draw(t, "isend"), "isearch-end"))
	case 1: // completion menu
		out := []Step{k("\t", "complete")}
		for i := rapid.IntRange(0, 6).Draw(t, "mn"); i > 0; i-- {
			out = append(out, k(rapid.SampledFrom([]string{"\t", "\x1b[Z", "\x1b[A", "\x1b[B", "\x1b[C", "\x1b[D", "\x0e", "\x10", "\x1b[1;5A", "\x1b[1;5B", "\x00", "\x06", "a", "\x7f"}).Draw(t, "mkey"), "menu-key"))
		}

		return append(out, k(rapid.SampledFrom([]string{"\r", "\x1b", "\x03", " ", "x", "\x07"}).Draw(t, "mend"), "menu-end"))
	case 2: // vi operator + motion
		out := []Step{k("\x1b", "esc")}
		if rapid.Bool().Draw(t, "cnt") {
			out = append(out, k(rapid.SampledFrom([]string{"2", "3", "10"}).Draw(t, "count"), "count"))
		}

		out = append(out, k(rapid.SampledFrom([]string{"d", "c", "y", "gu", "gU", "g~"}).Draw(t, "op"), "operator"), motion())

		return out
	case 3: // vi visual
		out := []Step{k("\x1b", "esc"), k(rapid.SampledFrom([]string{"v", "V"}).Draw(t, "vis"), "visual")}
		for i := rapid.IntRange(0, 3).Draw(t, "vn"); i > 0; i-- {
			out = append(out, motion())
		}

		return append(out, k(rapid.SampledFrom([]string{"d", "y", "c", "x", "~", "u", "U", "S\"", "s", "\x1b", "v", "o", "r!", "J", "p"}).Draw(t, "vend"), "visual-end"))
	case 4: // emacs keyboard macro
		out := []Step{k("\x18(", "start-kbd-macro")}
		for i := rapid.IntRange(0, 4).Draw(t, "kn"); i > 0; i-- {
			out = append(out, genKeyToken(t, e))
		}

		return append(out, k("\x18)", "end-kbd-macro"), k("\x18e", "call-last-kbd-macro"))
	case 5: // vi macro
		out := []Step{k("\x1b", "esc"), k("qa", "macro-record")}
		for i := rapid.IntRange(0, 4).Draw(t, "kn"); i > 0; i-- {
			out = append(out, genKeyToken(t, e))
		}

		return append(out, k("\x1b", "esc"), k("q", "macro-stop"), k("@a", "macro-run"))
	case 6: // history walking and searches
		out := []Step{}
		for i := rapid.IntRange(1, 6).Draw(t, "hn"); i > 0; i-- {
			out = append(out, k(rapid.SampledFrom([]string{"\x10", "\x0e", "\x1b<", "\x1b>", "\x1bp", "\x1bn", "\x1b[A", "\x1b[B", "\x1b[5~", "\x1b[6~", "\x0f", "\x1b.", "\x1b_"}).Draw(t, "hkey"), "history"))
		}

		return out
	case 7: // non-incremental search / vi search
		out := []Step{k(rapid.SampledFrom([]string{"\x1bp", "\x1bn"}).Draw(t, "nis"), "history-search")}
		if rapid.Bool().Draw(t, "visearch") {
			out = []Step{k("\x1b", "esc"), k(rapid.SampledFrom([]string{"/", "?"}).Draw(t, "vs"), "vi-search"), k("e", "text"), k("c", "text")}
		}

		return append(out, k(rapid.SampledFrom([]string{"\r", "\x1b", "\x07", "\x03", "n", "N"}).Draw(t, "nisend"), "search-end"))
	default: // kill / yank / undo dance
		out := []Step{}
		for i := rapid.IntRange(2, 6).Draw(t, "kyn"); i > 0; i-- {
			out = append(out, k(rapid.SampledFrom([]string{"\x0b", "\x15", "\x17", "\x1bd", "\x1b\x7f", "\x19", "\x1by", "\x1f", "\x18\x15", "\x01", "\x05", "\x1bb", "\x1bf", "\x14", "\x1bt", "\x1bu", "\x1bl", "\x1bc", "\x00", "\x18\x18", "\x1bw"}).Draw(t, "kykey"), "edit"))
		}

		return out
	}
}

// argCommands: commands documented to use a numeric argument.
var argCommands = []string{"forward-char", "backward-char", "forward-word", "backward-word", "previous-history", "next-history", "delete-char", "backward-delete-char",
	"kill-word", "backward-kill-word", "kill-line", "backward-kill-line", "unix-word-rubout", "transpose-chars", "transpose-words", "upcase-word", "downcase-word",
	"capitalize-word", "yank", "yank-pop", "self-insert", "insert-comment", "quoted-insert", "tab-insert", "history-search-backward", "history-search-forward",
	"beginning-of-history", "end-of-history", "fetch-history", "shell-forward-word", "shell-backward-word", "shell-kill-word", "shell-transpose-words",
	"character-search", "character-search-backward", "copy-forward-word", "copy-backward-word", "overwrite-mode", "undo", "menu-complete", "menu-complete-backward",
	"dump-functions", "dump-variables", "dump-macros", "vi-arg-digit", "digit-argument", "universal-argument", "up-line-or-history", "down-line-or-history",
	"vi-goto-column", "vi-column", "keyword-increase", "keyword-decrease"}

// genScript draws a script: tokens and phrases.
func genScript(t *rapid.T, e *Env, min, max int) []Step {
	groups := rapid.SliceOfN(rapid.Custom(func(t *rapid.T) []Step {
		if rapid.IntRange(0, 3).Draw(t, "isphrase") == 0 {
			return genPhrase(t, e)
		}

		return []Step{genKeyToken(t, e)}
	}), min, max).Draw(t, "script")

	out := []Step{}
	for _, g := range groups {
		out = append(out, g...)
	}

	return dropNestedMacroCalls(out)
}

// dropNestedMacroCalls removes the steps that replay a keyboard macro from
// the part of a script where a macro may be being recorded. A definition that
// replays a macro nests runs (the library bounds the depth at 20), and with a
// body that grows the buffer the work is exponential in that depth: such a
// session is honestly slow, which the watchdog cannot tell from a spin. The
// dropped steps are not replaced; replays after the last recording step stay.
func dropNestedMacroCalls(steps []Step) []Step {
	starts := func(s Step) bool {
		b := string(s.Keys.dec())
		return strings.Contains(b, "\x18(") || s.Note == "start-kbd-macro" || s.Note == "macro-record" || s.Note == "macro-toggle-record" ||
			s.Cmd == "start-kbd-macro" || s.Cmd == "macro-toggle-record" || (len(b) == 2 && b[0] == 'q')
	}
	ends := func(s Step) bool {
		b := string(s.Keys.dec())
		return strings.Contains(b, "\x18)") || s.Note == "end-kbd-macro" || s.Note == "macro-stop" || s.Cmd == "end-kbd-macro" || b == "q"
	}
	calls := func(s Step) bool {
		b := string(s.Keys.dec())
		return strings.Contains(b, "\x18e") || strings.HasPrefix(b, "@") || s.Note == "call-last-kbd-macro" || s.Note == "macro-run" ||
			s.Cmd == "call-last-kbd-macro" || s.Cmd == "macro-run"
	}

	first, last := -1, -1

	for i, s := range steps {
		if starts(s) && first < 0 {
			first = i
		}

		if starts(s) || ends(s) {
			last = i
		}
	}

	if first < 0 {
		return steps
	}

	out := steps[:0:0]

	for i, s := range steps {
		if i > first && i < last && calls(s) {
			continue
		}

		out = append(out, s)
	}

	return out
}

// joinSteps concatenates consecutive key steps (for "paste" style delivery).
func joinSteps(steps []Step) []byte {
	var out []byte
	for _, s := range steps {
		out = append(out, s.Keys.dec()...)
	}

	return out
}

func notes(steps []Step) string {
	var sb strings.Builder

	for i, s := range steps {
		if i > 0 {
			sb.WriteString(" ")
		}

		if s.Fault != "" {
			sb.WriteString("<" + s.Fault + ">")
		} else if s.Cmd != "" {
			sb.WriteString("[" + s.Cmd + "]")
		} else if s.Note != "" && s.Note != "text" && s.Note != "char" {
			sb.WriteString("[" + s.Note + ":" + string(s.Keys) + "]")
		} else {
			sb.WriteString(string(s.Keys))
		}
	}

	return sb.String()
}

// genVars draws settings for the library's variables (inputrc text).
var boolVars = []string{"autopairs", "autocomplete", "history-autosuggest", "blink-matching-paren", "completion-ignore-case", "convert-meta", "input-meta",
	"output-meta", "enable-bracketed-paste", "menu-complete-display-prefix", "show-all-if-ambiguous", "show-all-if-unmodified", "skip-completed-text",
	"revert-all-at-newline", "history-preserve-point", "usage-hint-always", "multiline-column", "multiline-column-numbered", "prompt-transient",
	"transient-prompt", "show-mode-in-prompt", "disable-completion", "mark-modified-lines", "print-completions-horizontally", "colored-completion-prefix",
	"colored-stats", "visible-stats", "page-completions", "completion-map-case", "expand-tilde", "echo-control-characters", "bind-tty-special-chars"}

func genVars(t *rapid.T, max int) [][2]string {
	n := rapid.IntRange(0, max).Draw(t, "nvars")
	out := [][2]string{}

	for i := 0; i < n; i++ {
		switch rapid.IntRange(0, 5).Draw(t, "varkind") {
		case 0:
			out = append(out, [2]string{rapid.SampledFrom([]string{"history-size", "completion-query-items", "completion-display-width", "completion-prefix-display-length", "keyseq-timeout"}).Draw(t, "ivar"),
				fmt.Sprint(rapid.SampledFrom([]int{-1, 0, 1, 2, 5, 100, 100000}).Draw(t, "ival"))})
		case 1:
			out = append(out, [2]string{rapid.SampledFrom([]string{"comment-begin", "bell-style", "emacs-mode-string", "vi-ins-mode-string", "vi-cmd-mode-string", "completion-list-separator",
				"cursor-emacs", "cursor-vi-insert", "cursor-vi-command", "isearch-terminators", "multiline-column-custom"}).Draw(t, "svar"),
				rapid.SampledFrom([]string{"#", "//", "none", "visible", "audible", "block", "beam", "underline", "x", "=>", "日"}).Draw(t, "sval")})
		default:
			out = append(out, [2]string{rapid.SampledFrom(boolVars).Draw(t, "bvar"), rapid.SampledFrom([]string{"on", "off"}).Draw(t, "bval")})
		}
	}

	return out
}

// displayVars: variables documented to change only how things are shown (or
// nothing the editing commands look at); a check whose property does not depend
// on the configuration draws a few of them so that it holds "under any" of these.
var displayVars = [][2]string{{"blink-matching-paren", "on"}, {"show-mode-in-prompt", "on"}, {"mark-modified-lines", "on"}, {"usage-hint-always", "on"},
	{"colored-stats", "on"}, {"visible-stats", "on"}, {"colored-completion-prefix", "on"}, {"echo-control-characters", "off"}, {"enable-bracketed-paste", "off"},
	{"multiline-column", "off"}, {"multiline-column-numbered", "on"}, {"cursor-vi-command", "underline"}, {"cursor-vi-insert", "beam"}, {"cursor-emacs", "block"},
	{"bell-style", "visible"}, {"prompt-transient", "on"}, {"history-preserve-point", "on"}, {"print-completions-horizontally", "on"}}

func genDisplayVars(t *rapid.T) [][2]string {
	out := [][2]string{}

	if rapid.Bool().Draw(t, "dispvars") {
		return out
	}

	for _, i := range rapid.SliceOfNDistinct(rapid.IntRange(0, len(displayVars)-1), 1, 3, rapid.ID[int]).Draw(t, "dispvar") {
		out = append(out, displayVars[i])
	}

	return out
}

func renderVars(mode string, vars [][2]string) string {
	var sb strings.Builder
	sb.WriteString(baseInputrc)

	if mode == "vi" {
		sb.WriteString("set editing-mode vi\n")
	}

	for _, v := range vars {
		fmt.Fprintf(&sb, "set %s %s\n", v[0], v[1])
	}

	return sb.String()
}

var histPool = [][]string{
	{},
	{"only entry"},
	{"ls -la", "echo hello", "git status", "echo hello world"},
	{"dup", "dup", "dup"},
	{"a", "ab", "abc", "abcd"},
	{"first line\nsecond line", "single", "x\ny\nz"},
	{"日本語 コマンド", "é accent", "한글 😀"},
	{"echo " + strings.Repeat("long ", 40), "short"},
	{"one", "two", "three", "four", "five", "six", "seven", "eight", "nine", "ten", "eleven", "twelve"},
	{" leading", "trailing ", "in  side"},
}

func genHist(t *rapid.T) []string {
	return append([]string{}, rapid.SampledFrom(histPool).Draw(t, "hist")...)
}

// ---------------------------------------------------------------------------
// driving helper: one chunk per read, snapshots collected

type drive struct {
	h     *Harness
	s     *rig.Session
	st    *rig.Stop
	parks []*proto.Event // snapshot after each chunk (index i = after chunk i); parks[0] = initial
	fail  *Failure
}

func openDrive(h *Harness, child *rig.Child, spec *proto.Spec, o rig.SessionOpts) *drive {
	s, st := child.Start(spec, o)
	d := &drive{h: h, s: s, st: st}

	if f := stopFailure(st); f != nil {
		d.fail = f
		return d
	}

	if st.Kind != "park" {
		d.fail = &Failure{Clause: "infra", Msg: "session did not park: " + st.String(), Infra: true}
		return d
	}

	d.parks = append(d.parks, st.Ev)

	return d
}

// send delivers one chunk; it returns the park snapshot, or nil when the call
// did not park again (d.st then says what happened; crashes set d.fail).
func (d *drive) send(b []byte) *proto.Event {
	if d.fail != nil || d.st.Kind != "park" {
		return nil
	}

	d.st = d.s.Send(b)

	if os.Getenv("VERIF_TRACE") != "" {
		fmt.Printf("TRACE send %q -> %s cmds=%v\n", b, d.st, cmdsOf(d.st))
	}

	if f := stopFailure(d.st); f != nil {
		d.fail = f
		return nil
	}

	if d.st.Kind != "park" {
		return nil
	}

	d.parks = append(d.parks, d.st.Ev)

	return d.st.Ev
}

func (d *drive) sendAll(chunks ...string) *proto.Event {
	var ev *proto.Event
	for _, c := range chunks {
		if ev = d.send([]byte(c)); ev == nil {
			return nil
		}
	}

	return ev
}

func (d *drive) close() {
	d.h.Sessions++
	d.h.Keys += d.s.Keys
	d.s.Finish()
}

// cmdsOf lists the command names logged at the current stop.
func cmdsOf(st *rig.Stop) []string {
	out := []string{}

	for _, ev := range st.Cmds {
		if ev.Ev == "cmd" {
			out = append(out, ev.Name)
		}
	}

	return out
}
