package checks

import (
	"fmt"
	"sort"
	"strings"
	"testing"

	"pgregory.net/rapid"

	"verif/harness/proto"
	"verif/harness/rig"
)

// C09 — history navigation and search are faithful and non-destructive.

const c09Rule = "history contents from a pool (empty, one entry, duplicates, entries that are prefixes of each other, multi-line, multi-byte, padded, entries and search texts with regular-expression metacharacters) x an in-progress buffer (possibly empty, cursor possibly moved back) x 5-40 steps from {previous/next-history, beginning/end-of-history, up/down-line-or-history, history-search-backward/forward, history-substring-search-backward/forward, beginning/end-of-buffer-or-history} and incremental search sessions (C-r / C-s, pattern keys, repeats, ended by CR, ESC or C-g), biased to overshoot both ends, and edits (a typed character) of whatever entry or line is shown; one command per read; oracle: (a) walk index model run as a SET of possible positions (end-of-history may mean slot 0 or 1; *-line-or-history and *-buffer-or-history may move inside the buffer instead): the buffer shown must equal slot[p] for a possible p, where a slot edited while shown may later show its stored text or any text seen on it after an edit (search validity (b) is judged up to the first edit); (b) after a prefix / substring search the buffer is the in-progress text or a stored entry that has / contains the search string (text before the cursor of the buffer shown when pressed, or of the in-progress line); after an incremental search the buffer is the in-progress text or an entry matching the typed pattern (case-insensitively when it has no upper-case letter); (c) no panic and no 'history error' hint at either end; (d) afterwards the source holds exactly its prior entries (plus the accepted line per C08); non-trivial = walks past an end, or returns to slot 0 with a non-empty in-progress buffer after leaving it, or a search with >= 2 matching entries; distinct = hash of the case"

type C09Case struct {
	Mode  string   `json:"mode"`
	Hist  []string `json:"hist"`
	Text  string   `json:"text"`
	Back  int      `json:"back"`
	Steps []C09Op  `json:"steps"`
	// walk commands of a second Readline call on the same shell (may be empty)
	Second []string `json:"second,omitempty"`
	// revert-all-at-newline: on = edits of visited entries are dropped when a line is accepted
	Revert bool `json:"revert,omitempty"`

	firstRet string
}

type C09Op struct {
	Cmd  string   `json:"cmd"`            // command name, or "isearch"
	Keys []string `json:"keys,omitempty"` // isearch: the keys of the session, in Go-quoted form
}

var c09Walk = []string{"previous-history", "next-history", "beginning-of-history", "end-of-history", "up-line-or-history", "down-line-or-history",
	"beginning-of-buffer-or-history", "end-of-buffer-or-history"}

var c09Search = []string{"history-search-backward", "history-search-forward", "history-substring-search-backward", "history-substring-search-forward"}

var c09Hists = [][]string{
	{},
	{"only entry"},
	{"ls -la", "echo hello", "git status", "echo hello world"},
	{"dup", "dup", "dup"},
	{"a", "ab", "abc", "abcd"},
	{"first line\nsecond line", "single", "x\ny\nz"},
	{"日本語 コマンド", "é accent", "한글 😀"},
	{"echo one", "Echo Two", "ls", "echo three", "make echo"},
	{" leading", "trailing ", "in  side"},
	// search text is literal: entries that only match it when read as a regular expression
	{"make abc", "a.c", "sleep 125", "sleep 1.5", "wc -l *.go", "ls x.go", "a+b", "aab", "f(x)", "fx", "[ab]", "a"},
}

func genC09(t *rapid.T) *C09Case {
	c := &C09Case{Mode: rapid.SampledFrom([]string{"emacs", "emacs", "vi"}).Draw(t, "mode")}
	c.Hist = append([]string{}, rapid.SampledFrom(c09Hists).Draw(t, "hist")...)
	c.Text = rapid.SampledFrom([]string{"", "", "e", "ec", "echo", "a", "ab", "l", "x", "日", "du", "echo hello", "zzz", "E", "a.c", "1.5", "*.go", "a+b", "f(x", "[ab]", ".", "a."}).Draw(t, "text")
	c.Back = rapid.IntRange(0, len([]rune(c.Text))).Draw(t, "back")
	n := rapid.IntRange(5, 40).Draw(t, "nsteps")

	for i := 0; i < n; i++ {
		switch k := rapid.IntRange(0, 10).Draw(t, "opkind"); {
		case k == 10:
			// edit whatever is shown (an entry being visited, or the line being typed)
			c.Steps = append(c.Steps, C09Op{Cmd: "edit", Keys: []string{rapid.SampledFrom([]string{"Z", "q", "日", " "}).Draw(t, "editkey")}})
		case k < 6:
			// runs of the same walk command overshoot the ends
			cmd := rapid.SampledFrom(c09Walk).Draw(t, "walk")
			rep := rapid.SampledFrom([]int{1, 1, 2, 6}).Draw(t, "rep")

			for j := 0; j < rep; j++ {
				c.Steps = append(c.Steps, C09Op{Cmd: cmd})
			}
		case k < 9:
			c.Steps = append(c.Steps, C09Op{Cmd: rapid.SampledFrom(c09Search).Draw(t, "search")})
		default:
			keys := []string{rapid.SampledFrom([]string{"\\x12", "\\x13"}).Draw(t, "dir")}

			for _, r := range rapid.SampledFrom([]string{"e", "ec", "echo", "l", "x", "du", "E", "日", "o w"}).Draw(t, "pattern") {
				keys = append(keys, string(enc([]byte(string(r)))))
			}

			for j := rapid.IntRange(0, 2).Draw(t, "repeat"); j > 0; j-- {
				keys = append(keys, rapid.SampledFrom([]string{"\\x12", "\\x13"}).Draw(t, "again"))
			}

			keys = append(keys, rapid.SampledFrom([]string{"\\x1b", "\\a", "\\r"}).Draw(t, "end"))
			c.Steps = append(c.Steps, C09Op{Cmd: "isearch", Keys: keys})
		}
	}

	if rapid.IntRange(0, 2).Draw(t, "second") > 0 {
		c.Revert = rapid.Bool().Draw(t, "revert")

		for i := rapid.IntRange(2, 10).Draw(t, "nsecond"); i > 0; i-- {
			c.Second = append(c.Second, rapid.SampledFrom([]string{"previous-history", "previous-history", "previous-history", "next-history", "up-line-or-history", "down-line-or-history",
				"beginning-of-history", "end-of-history"}).Draw(t, "walk2"))
		}
	}

	return c
}

func runC09(h *Harness, child *rig.Child, c *C09Case) (*Failure, bool) {
	e := h.env()
	names := append(append([]string{"backward-char", "accept-line"}, c09Walk...), c09Search...)
	calls := 1
	if len(c.Second) > 0 {
		calls = 2
	}

	vars := [][2]string{{"convert-meta", "off"}, {"input-meta", "on"}, {"output-meta", "on"}}
	if c.Revert {
		vars = append(vars, [2]string{"revert-all-at-newline", "on"})
	}

	spec := &proto.Spec{Calls: calls, Inputrc: renderVars(c.Mode, vars),
		Prompt: &proto.PromptSpec{Primary: "> "}, Binds: e.bindNames(names, mainKeymaps...), LogCmds: true,
		Hist: []proto.HistSpec{{Kind: "mem", Name: "h", Entries: c.Hist}}}

	d := openDrive(h, child, spec, rig.SessionOpts{Cols: 100, Rows: 30})
	defer d.close()

	for _, r := range c.Text {
		d.send([]byte(string(r)))
	}

	for i := 0; i < c.Back; i++ {
		d.send([]byte(e.key("backward-char")))
	}

	if d.fail != nil {
		return d.fail, false
	}

	n := len(c.Hist)
	slot := func(p int) string {
		if p == 0 {
			return c.Text
		}

		return c.Hist[n-p]
	}

	// Texts an edit left on a slot while it was shown there: the library keeps
	// the edited text of a visited entry for the rest of the call (the stored
	// entry itself must not change: clause (d)), so a later visit may show the
	// stored text or any text seen on that slot after an edit.
	versions := map[int]map[string]bool{}
	slotIs := func(p int, line string) bool { return slot(p) == line || versions[p][line] }
	edited := false

	P := map[int]bool{0: true}
	modelOn := true
	nontrivial := false
	leftZero := false
	done := []string{}

	hintCheck := func(ev *proto.Event) *Failure {
		if strings.Contains(ev.Hint, "history error") {
			return failf("history-error", "c09:history-error", "after %v: the library reports %q", done, ev.Hint)
		}

		return nil
	}

	inProgressBeforeCursor := string([]rune(c.Text)[:len([]rune(c.Text))-c.Back])
	ipPrefixes := map[string]bool{inProgressBeforeCursor: true}

	for _, op := range c.Steps {
		before := d.parks[len(d.parks)-1]
		done = append(done, op.Cmd)

		// the in-progress line's cursor is wherever it was last seen on it
		// (when the text equals a stored entry the position is ambiguous: every
		// cursor seen while possibly on it is kept as a candidate)
		if P[0] && before.Line == c.Text && modelOn {
			inProgressBeforeCursor = string([]rune(c.Text)[:min(before.Pos, len([]rune(c.Text)))])
			ipPrefixes[inProgressBeforeCursor] = true
		}

		if op.Cmd == "edit" {
			// a typed character edits the buffer only in an inserting keymap (an
			// incremental search closed with ESC leaves vi in command mode)
			if !modelOn || before.Local != "" || before.Kind != "main" || (before.Main != "emacs" && before.Main != "vi-insert") {
				continue
			}

			ev := d.send(K(op.Keys[0]).dec())
			if d.fail != nil {
				d.fail.Msg = fmt.Sprintf("after %v: %s", done, d.fail.Msg)
				return d.fail, true
			}

			if ev == nil {
				return nil, nontrivial
			}

			edited = true

			for p := range P {
				if versions[p] == nil {
					versions[p] = map[string]bool{}
				}

				versions[p][ev.Line] = true

				if p > 0 {
					nontrivial = true
				}
			}

			continue
		}

		if op.Cmd == "isearch" {
			pattern := ""

			var ev *proto.Event

			for i, k := range op.Keys {
				b := K(k).dec()

				// the search may have closed itself (no match, a repeat past the
				// end): the remaining keys of the session would then be typed into
				// the line instead
				if i > 0 && (ev == nil || ev.Local != "isearch") {
					break
				}

				ev = d.send(b)

				if ev == nil {
					break
				}

				// the pattern is what the search minibuffer holds (Line() is the
				// minibuffer while the search is open)
				if ev.Local == "isearch" {
					pattern = ev.Line
				}
			}

			if d.fail != nil {
				return d.fail, true
			}

			if ev == nil {
				// CR accepted the match
				if d.st.Kind != "return" {
					return nil, nontrivial
				}

				// CR may also cancel the search and return the buffer it started from
				if f := c09Matches(c, d.st.Ev.Line, pattern, "isearch"); f != nil && d.st.Ev.Line != before.Line && !edited {
					f.Msg = fmt.Sprintf("after %v: incremental search for %q accepted with CR returned %q: %s", done, pattern, d.st.Ev.Line, f.Msg)
					return f, true
				}

				return c09Sources(c, d.st.Ev), nontrivial
			}

			if ev.Local == "isearch" || ev.Kind != "main" {
				// still searching: close it
				if ev = d.send([]byte("\x07")); ev == nil {
					return d.fail, nontrivial
				}
			}

			if ev.Local == "isearch" || ev.Kind != "main" {
				// cannot be closed (what is shown is the minibuffer, not the line):
				// nothing more can be observed in this session
				return nil, nontrivial
			}

			if f := hintCheck(ev); f != nil {
				return f, true
			}

			// a cancelled or failed search may also restore the buffer it started from
			if f := c09Matches(c, ev.Line, pattern, "isearch"); f != nil && ev.Line != before.Line && !edited {
				f.Msg = fmt.Sprintf("after %v: incremental search for %q started from buffer %q left the buffer %q: %s", done, pattern, before.Line, ev.Line, f.Msg)

				if before.Line == "" {
					f.Sig += ":from-empty-line"
				}

				return f, true
			}

			P = map[int]bool{}

			for p := 0; p <= n; p++ {
				if slotIs(p, ev.Line) {
					P[p] = true
				}
			}

			// An incremental search that changed the buffer inserts its match INTO
			// the line being edited (it becomes what the user is typing) or moves to
			// that entry: which one is not stated, and the walk model and the prefix
			// search strings need to know. They are switched off from here on;
			// clauses (c), (d) and the incremental-search validity stay on.
			if ev.Line != before.Line {
				modelOn = false
			}

			continue
		}

		ev := d.send([]byte(e.key(op.Cmd)))
		if d.fail != nil {
			d.fail.Msg = fmt.Sprintf("after %v: %s", done, d.fail.Msg)
			return d.fail, true
		}

		if ev == nil {
			return nil, nontrivial
		}

		if f := hintCheck(ev); f != nil {
			return f, true
		}

		isWalk := false

		for _, w := range c09Walk {
			if w == op.Cmd {
				isWalk = true
			}
		}

		if !isWalk && !modelOn {
			continue
		}

		if !isWalk {
			// (b) validity of a prefix / substring search
			shownBefore := string([]rune(before.Line)[:min(before.Pos, len([]rune(before.Line)))])
			sub := strings.Contains(op.Cmd, "substring")
			ok := ev.Line == c.Text || ev.Line == before.Line
			matches := 0

			cands := []string{shownBefore}
			for s := range ipPrefixes {
				cands = append(cands, s)
			}

			for _, ent := range c.Hist {
				for _, s := range cands {
					if (sub && strings.Contains(ent, s)) || (!sub && strings.HasPrefix(ent, s)) {
						if ent == ev.Line {
							ok = true
						}

						matches++

						break
					}
				}
			}

			// after an edit "the in-progress text" and "the entries" have versions
			// the statement does not rank: validity is judged before the first edit
			if !ok && edited {
				ok = true
			}

			if !ok {
				return failf("search-validity", "c09:search-invalid:"+op.Cmd, "after %v: %s from buffer %q (cursor %d, in-progress %q) put %q in the buffer, which is neither the in-progress text nor an entry matching %q / %q; history %q",
					done, op.Cmd, before.Line, before.Pos, c.Text, ev.Line, shownBefore, inProgressBeforeCursor, c.Hist), true
			}

			if matches >= 2 {
				nontrivial = true
			}

			P = map[int]bool{}

			for p := 0; p <= n; p++ {
				if slotIs(p, ev.Line) {
					P[p] = true
				}
			}

			if len(P) == 0 {
				modelOn = false
			}

			continue
		}

		if !modelOn {
			continue
		}

		// (a) walk model over the set of possible positions
		next, nt := c09WalkStep(op.Cmd, P, n)
		if nt {
			nontrivial = true
		}

		filtered := map[int]bool{}

		for p := range next {
			if slotIs(p, ev.Line) {
				filtered[p] = true
			}
		}

		if len(filtered) == 0 {
			want := []string{}
			for p := range next {
				want = append(want, fmt.Sprintf("slot %d = %q %v", p, slot(p), keysStr(versions[p])))
			}

			return failf("walk-model", "c09:walk:"+op.Cmd, "after %v: %s shows %q; by the walk model (positions before: %v) it must show one of: %s; in-progress %q, history %q",
				done, op.Cmd, ev.Line, keysInt(P), strings.Join(want, ", "), c.Text, c.Hist), true
		}

		if !P[0] || len(P) > 1 {
			leftZero = true
		}

		if filtered[0] && leftZero && c.Text != "" {
			nontrivial = true
		}

		P = filtered
	}

	// (d) accept and compare the source
	last := d.parks[len(d.parks)-1]
	if last.Local != "" || last.Kind != "main" {
		return nil, nontrivial
	}

	d.send([]byte(e.key("accept-line")))

	if d.fail != nil {
		return d.fail, nontrivial
	}

	if d.st.Kind != "return" {
		return nil, nontrivial
	}

	if f := c09Sources(c, d.st.Ev); f != nil {
		return f, nontrivial
	}

	// With revert-all-at-newline off the library keeps the texts edits left on
	// visited entries; when the model was switched off (an incremental search
	// put its match into whatever was shown) those texts are not all known and
	// the second call cannot be judged.
	if len(c.Second) > 0 && !d.st.Ev.HasErr && (c.Revert || modelOn) {
		c.firstRet = d.st.Ev.Line

		// edited texts by index in the source (oldest = 0); readline keeps them
		// across calls unless revert-all-at-newline is on
		kept := map[int]map[string]bool{}

		if !c.Revert {
			for p, v := range versions {
				if p > 0 {
					kept[n-p] = v
				}
			}
		}

		if f := c09SecondCall(d, e, c, d.st.Ev.Hist[0], kept); f != nil {
			return f, true
		}

		if !P[0] || len(P) > 1 {
			nontrivial = true // accepted while on a history entry, then walked again
		}
	}

	return nil, nontrivial
}

// c09WalkStep: the positions a walk command may lead to from the possible
// positions P in a history of n entries (position 0 = the line being typed,
// p = the p-th newest entry). Where the statement is silent every reading is
// kept: end-of-history may mean position 0 or 1, the *-line-or-history and
// *-buffer-or-history commands may move inside the buffer instead.
func c09WalkStep(cmd string, P map[int]bool, n int) (next map[int]bool, nontrivial bool) {
	next = map[int]bool{}
	stay := false

	for p := range P {
		switch cmd {
		case "previous-history":
			if n > 0 {
				if p == n {
					nontrivial = true
				}

				next[min(p+1, n)] = true
			} else {
				next[p] = true
			}
		case "next-history":
			if p == 0 {
				nontrivial = true
			}

			next[max(p-1, 0)] = true
		case "beginning-of-history":
			if n > 0 {
				next[n] = true
			} else {
				next[p] = true
			}
		case "end-of-history":
			next[0] = true

			if n > 0 {
				next[1] = true
			}

			if n == 0 {
				next[p] = true
			}
		case "up-line-or-history":
			stay = true

			if n > 0 {
				next[min(p+1, n)] = true
			} else {
				next[p] = true
			}
		case "down-line-or-history":
			stay = true
			next[max(p-1, 0)] = true
		case "beginning-of-buffer-or-history":
			stay = true

			if n > 0 {
				next[n] = true
			} else {
				next[p] = true
			}
		case "end-of-buffer-or-history":
			stay = true
			next[0] = true

			if n > 0 {
				next[1] = true
			}
		}
	}

	if stay {
		for p := range P {
			next[p] = true
		}
	}

	return next, nontrivial
}

// c09SecondCall: the application calls Readline again on the same shell; the
// history is now what the first call left in the source, nothing has been typed,
// and walking must show exactly those entries, newest first (or, with
// revert-all-at-newline off, a text an edit left on that entry in the first call).
func c09SecondCall(d *drive, e *Env, c *C09Case, hist []string, kept map[int]map[string]bool) *Failure {
	st := d.s.Next()
	if f := stopFailure(st); f != nil {
		return f
	}

	if st.Kind != "park" {
		return &Failure{Clause: "infra", Msg: "second call did not park: " + st.String(), Infra: true}
	}

	d.st = st
	d.parks = append(d.parks, st.Ev)

	if st.Ev.Line != "" {
		return nil // a held line: not this clause's subject
	}

	n := len(hist)
	slot := func(p int) string {
		if p == 0 {
			return ""
		}

		return hist[n-p]
	}

	P := map[int]bool{0: true}
	done := []string{}

	for _, cmd := range c.Second {
		done = append(done, cmd)

		ev := d.send([]byte(e.key(cmd)))
		if d.fail != nil {
			d.fail.Msg = fmt.Sprintf("second call, after %v: %s", done, d.fail.Msg)
			return d.fail
		}

		if ev == nil {
			return nil
		}

		if strings.Contains(ev.Hint, "history error") {
			return failf("history-error", "c09:history-error", "second call, after %v: the library reports %q", done, ev.Hint)
		}

		next, _ := c09WalkStep(cmd, P, n)
		filtered := map[int]bool{}

		for p := range next {
			if slot(p) == ev.Line || (p > 0 && kept[n-p][ev.Line]) {
				filtered[p] = true
			}
		}

		if len(filtered) == 0 {
			want := []string{}
			for p := range next {
				want = append(want, fmt.Sprintf("slot %d = %q %v", p, slot(p), keysStr(kept[n-p])))
			}

			sort.Strings(want)

			return failf("walk-model", "c09:walk2:"+cmd, "second Readline call on the same shell (the first returned %q; the source now holds %q), after %v: %s shows %q; by the walk model (positions before: %v) it must show one of: %s",
				c.firstRet, hist, done, cmd, ev.Line, keysInt(P), strings.Join(want, ", "))
		}

		P = filtered
	}

	return nil
}

func keysStr(m map[string]bool) []string {
	out := []string{}
	for k := range m {
		out = append(out, k)
	}

	sort.Strings(out)

	return out
}

func keysInt(m map[int]bool) []int {
	out := []int{}
	for k := range m {
		out = append(out, k)
	}

	return out
}

// c09Matches: the buffer after an incremental search.
func c09Matches(c *C09Case, got, pattern, what string) *Failure {
	if got == c.Text {
		return nil
	}

	fold := strings.ToLower(pattern) == pattern

	for _, ent := range c.Hist {
		if ent != got {
			continue
		}

		if pattern == "" || strings.Contains(ent, pattern) || (fold && strings.Contains(strings.ToLower(ent), pattern)) {
			return nil
		}

		return failf("isearch-validity", "c09:isearch-nonmatching", "entry %q does not match the pattern %q", ent, pattern)
	}

	return failf("isearch-validity", "c09:isearch-foreign", "%q is neither the in-progress text %q nor a stored entry of %q", got, c.Text, c.Hist)
}

// c09Sources: clause (d).
func c09Sources(c *C09Case, ret *proto.Event) *Failure {
	if len(ret.Hist) != 1 {
		return &Failure{Clause: "infra", Msg: "no history dump", Infra: true}
	}

	after := ret.Hist[0]
	want := append([]string{}, c.Hist...)

	if !ret.HasErr && strings.TrimSpace(ret.Line) != "" && (len(want) == 0 || !trimmedEq(want[len(want)-1], ret.Line)) {
		want = append(want, ret.Line)
	}

	if !eqStrings(after, want) {
		return failf("sources-unchanged", "c09:source-modified", "after the session (returned %q) the source holds %q, expected %q", ret.Line, after, want)
	}

	return nil
}

func TestC09(t *testing.T) {
	nt := map[*C09Case]bool{}

	runProp(t, propDef{
		id: "C09", check: "histnav", rule: c09Rule,
		setup:   func(h *Harness) { h.env() },
		newCase: func() any { return new(C09Case) },
		gen:     func(rt *rapid.T) any { return genC09(rt) },
		classify: func(h *Harness, x any) bool {
			c := x.(*C09Case)
			v := nt[c]
			delete(nt, c)
			h.class("mode-" + c.Mode)
			h.class(fmt.Sprintf("history-%d-entries", len(c.Hist)))

			return v
		},
		run: func(h *Harness, child *rig.Child, x any) *Failure {
			c := x.(*C09Case)
			f, v := runC09(h, child, c)
			nt[c] = v

			return f
		},
	})
}

var _ = rig.SessionOpts{}
