package checks

import (
	"fmt"
	"os"
	"sort"
	"strings"
	"testing"

	"pgregory.net/rapid"

	"github.com/reeflective/readline/inputrc"

	"verif/harness/rig"
)

// C13 — inputrc directives apply iff all enclosing conditions hold.

const c13Rule = "well-formed inputrc programs from a grammar ($if mode=/term=/app nested to depth 5, $else, $endif, set keymap (8 names), set bool/int/string variables, key-name binds, quoted-sequence binds in the documented notation, macros, comments, blank lines, $include of generated files) x (mode, term, app) options; oracle: an independent reference evaluator of the same AST gives the expected Binds/Vars, compared in both directions with ParseBytes into a fresh Config (sequences modulo Meta-x == ESC x); non-trivial = an $if whose own condition holds under an inactive ancestor, or an $else under an inactive ancestor, or set keymap inside a conditional; distinct = hash of the program"

func runC13(h *Harness, p *RcProgram) *Failure {
	want, st := p.eval()
	f := compareC13(p, want)

	// Known finding "nested-if-leak": recognised only when the parser's result is
	// exactly what the leak mechanism produces for this program.
	if f != nil && (st.activeUnderInactive || st.elseUnderInactive) && !strings.HasPrefix(f.Sig, "c13:panic") {
		if compareC13(p, p.evalLeaky()) == nil {
			f.Sig = "c13:nested-if-leak"
		}
	}

	return f
}

func compareC13(p *RcProgram, want *rcResult) *Failure {
	text := p.text(p.Main)

	cfg := inputrc.NewConfig()
	cfg.ReadFileFunc = func(name string) ([]byte, error) {
		if nodes, ok := p.Files[name]; ok {
			return []byte(p.text(nodes)), nil
		}

		return nil, os.ErrNotExist
	}

	var perr error

	panicked := func() (v any) {
		defer func() { v = recover() }()
		perr = inputrc.ParseBytes([]byte(text), cfg, inputrc.WithApp(p.App), inputrc.WithTerm(p.Term), inputrc.WithMode(p.Mode))

		return nil
	}()

	if panicked != nil {
		return failf("panic", "c13:panic", "parser panicked on a well-formed program: %v\n%s", panicked, text)
	}

	if perr != nil {
		return failf("error", "c13:error", "parser reported %v on a well-formed program:\n%s", perr, text)
	}

	// actual, normalised
	got := map[string]map[string][]rcBind{}

	for km, binds := range cfg.Binds {
		for seq, b := range binds {
			if got[km] == nil {
				got[km] = map[string][]rcBind{}
			}

			a := b.Action
			if b.Macro {
				a = normSeq([]rune(a))
			}

			k := normSeq([]rune(seq))
			got[km][k] = append(got[km][k], rcBind{Action: a, Macro: b.Macro})
		}
	}

	kms := []string{}
	for km := range want.Binds {
		kms = append(kms, km)
	}

	sort.Strings(kms)

	for _, km := range kms {
		seqs := []string{}
		for s := range want.Binds[km] {
			seqs = append(seqs, s)
		}

		sort.Strings(seqs)

		for _, s := range seqs {
			w := want.Binds[km][s]
			found := false

			for _, g := range got[km][s] {
				if g == w {
					found = true
				}
			}

			if !found {
				sig := "c13:missing"
				if len(got[km][s]) > 0 {
					sig = "c13:wrongbind"
				}

				return failf("missing", sig, "keymap %s: expected %q -> %+v, parser has %+v\noptions mode=%s term=%s app=%s\n%s", km, s, w, got[km][s], p.Mode, p.Term, p.App, text)
			}
		}
	}

	gkms := []string{}
	for km := range got {
		gkms = append(gkms, km)
	}

	sort.Strings(gkms)

	for _, km := range gkms {
		seqs := []string{}
		for s := range got[km] {
			seqs = append(seqs, s)
		}

		sort.Strings(seqs)

		for _, s := range seqs {
			if _, ok := want.Binds[km][s]; !ok {
				return failf("extra", "c13:extra-bind", "keymap %s: parser bound %q -> %+v, which no active directive asks for\noptions mode=%s term=%s app=%s\n%s", km, s, got[km][s], p.Mode, p.Term, p.App, text)
			}
		}
	}

	names := []string{}
	for n := range want.Vars {
		names = append(names, n)
	}

	sort.Strings(names)

	for _, n := range names {
		g, ok := cfg.Vars[n]
		if !ok {
			return failf("missing-var", "c13:missing-var", "variable %s: expected %v, not set\noptions mode=%s term=%s app=%s\n%s", n, want.Vars[n], p.Mode, p.Term, p.App, text)
		}

		if fmt.Sprintf("%T:%v", g, g) != fmt.Sprintf("%T:%v", want.Vars[n], want.Vars[n]) {
			return failf("wrong-var", "c13:wrong-var", "variable %s: expected %T %v, got %T %v\noptions mode=%s term=%s app=%s\n%s", n, want.Vars[n], want.Vars[n], g, g, p.Mode, p.Term, p.App, text)
		}
	}

	gnames := []string{}
	for n := range cfg.Vars {
		gnames = append(gnames, n)
	}

	sort.Strings(gnames)

	for _, n := range gnames {
		if _, ok := want.Vars[n]; !ok {
			return failf("extra-var", "c13:extra-var", "variable %s set to %v by no active directive\noptions mode=%s term=%s app=%s\n%s", n, cfg.Vars[n], p.Mode, p.Term, p.App, text)
		}
	}

	return nil
}

func TestC13(t *testing.T) {
	runProp(t, propDef{
		id: "C13", check: "conds", rule: c13Rule, noChild: true,
		newCase: func() any { return new(RcProgram) },
		gen:     func(rt *rapid.T) any { return genRcProgram(rt) },
		classify: func(h *Harness, x any) bool {
			p := x.(*RcProgram)
			_, st := p.eval()

			if st.activeUnderInactive {
				h.class("true-if-under-inactive-ancestor")
			}

			if st.elseUnderInactive {
				h.class("else-under-inactive-ancestor")
			}

			if st.keymapInCond {
				h.class("set-keymap-in-conditional")
			}

			if len(p.Files) > 0 {
				h.class("with-include")
			}

			h.class(fmt.Sprintf("depth-%d", st.maxDepth))

			if strings.Contains(p.text(p.Main), `\M-`) {
				h.class("meta-notation")
			}

			return st.activeUnderInactive || st.elseUnderInactive || st.keymapInCond
		},
		run: func(h *Harness, _ *rig.Child, x any) *Failure { return runC13(h, x.(*RcProgram)) },
	})
}
