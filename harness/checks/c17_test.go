package checks

import (
	"fmt"
	"strings"
	"testing"

	"pgregory.net/rapid"

	"verif/harness/proto"
	"verif/harness/rig"
)

// C17 — vi delete removes exactly what yank would copy.

const c17Rule = "buffers (words, punctuation, quotes, brackets, blanks, some multi-byte) x cursor positions (vi command mode) x motions and text objects from the statement's list (h l w b e W B E 0 $ ^ space | f/F/t/T<c> % ge gE iw aw iW aW i<q> a<q> i<b> a<b> ia aa) with optional counts before the operator and/or the motion, in operator-pending form (d<m> / y<m>) and visual form (v<m>d / v<m>y); keys one per read; under 0-3 display-only variables (blink-matching-paren, show-mode-in-prompt, cursor styles, ...); oracle (differential, two fresh sessions with an identical prefix): yank leaves the buffer unchanged; the register after delete equals the register after yank; the buffer after delete is the original with one contiguous occurrence of that text removed; a motion that fails leaves buffer and register unchanged in both; non-trivial = register non-empty and the motion is not h/l with count 1; distinct = hash of the case"

type C17Case struct {
	Text   string `json:"text"`
	Pos    int    `json:"pos"`
	Motion string `json:"motion"`
	OpCnt  int    `json:"opcnt,omitempty"`
	MoCnt  int    `json:"mocnt,omitempty"`
	Visual bool   `json:"visual,omitempty"`
	// display-only variables (the property is stated for any configuration)
	Vars [][2]string `json:"vars,omitempty"`
}

var c17Motions = []string{"h", "l", "w", "b", "e", "W", "B", "E", "0", "$", "^", "fa", "Fa", "ta", "Ta", "f ", "F(", "t\"", "T.", "%", "ge", "gE",
	"iw", "aw", "iW", "aW", "i\"", "a\"", "i'", "a'", "i(", "a(", "i[", "a{", "ia", "aa",
	// motions bound to other keys: space, column. (Function keys are not motions
	// in the operator-pending and visual keymaps: their ESC is taken as the key
	// that leaves the mode and the rest runs as commands, which falls under the
	// lone-ESC carve-out of C03/C05 and is not this property's subject.)
	" ", "|"}

var c17Pieces = []string{"foo", "bar", "baz", " ", "  ", "a", "aa", "(a b)", "[x]", "{y z}", "\"q a\"", "'s a'", "x.y", "a-b_c", "--opt=val", ";", "a(b)c", "日本", "é", "f(g(h))", "end."}

func genC17(t *rapid.T) *C17Case {
	c := &C17Case{Text: strings.Join(rapid.SliceOfN(rapid.SampledFrom(c17Pieces), 1, 7).Draw(t, "pieces"), rapid.SampledFrom([]string{" ", "", " "}).Draw(t, "join"))}
	n := len([]rune(c.Text))
	c.Pos = rapid.IntRange(0, max(n-1, 0)).Draw(t, "pos")
	c.Motion = rapid.SampledFrom(c17Motions).Draw(t, "motion")
	c.OpCnt = rapid.SampledFrom([]int{0, 0, 0, 2, 3}).Draw(t, "opcnt")
	c.MoCnt = rapid.SampledFrom([]int{0, 0, 0, 2, 3}).Draw(t, "mocnt")
	c.Visual = rapid.IntRange(0, 2).Draw(t, "visual") == 0

	if c.Visual {
		c.OpCnt = 0
	}

	// "0" as a motion cannot take a count in front (it would be part of it)
	if c.Motion == "0" {
		c.MoCnt = 0
	}

	c.Vars = genDisplayVars(t)

	return c
}

type c17Out struct {
	before, after string
	kill          string
	local         string
}

func runC17Session(h *Harness, child *rig.Child, c *C17Case, op string) (*c17Out, *Failure) {
	spec := &proto.Spec{Calls: 1, Inputrc: renderVars("vi", append([][2]string{{"convert-meta", "off"}, {"input-meta", "on"}, {"output-meta", "on"}}, c.Vars...)), LogCmds: true,
		Prompt: &proto.PromptSpec{Primary: "> "}}

	d := openDrive(h, child, spec, rig.SessionOpts{Cols: 120, Rows: 30})
	defer d.close()

	for _, r := range c.Text {
		d.send([]byte(string(r)))
	}

	d.send([]byte("\x1b"))
	d.send([]byte("0"))

	if c.Pos > 0 {
		for _, ch := range fmt.Sprint(c.Pos) {
			d.send([]byte(string(ch)))
		}

		d.send([]byte("l"))
	}

	if d.fail != nil {
		return nil, d.fail
	}

	if len(d.parks) == 0 {
		return nil, &Failure{Clause: "infra", Msg: "no park", Infra: true}
	}

	out := &c17Out{before: d.parks[len(d.parks)-1].Line}

	sendKeys := func(s string) {
		for _, r := range s {
			d.send([]byte(string(r)))
		}
	}

	// a function key is one key: its bytes arrive in one read (a lone ESC would
	// be a key of its own, see C05)
	sendMotion := func(m string) {
		if strings.HasPrefix(m, "\x1b") {
			d.send([]byte(m))
			return
		}

		sendKeys(m)
	}

	if c.Visual {
		sendKeys("v")

		if c.MoCnt > 0 {
			sendKeys(fmt.Sprint(c.MoCnt))
		}

		sendMotion(c.Motion)
		sendKeys(op)
	} else {
		if c.OpCnt > 0 {
			sendKeys(fmt.Sprint(c.OpCnt))
		}

		sendKeys(op)

		if c.MoCnt > 0 {
			sendKeys(fmt.Sprint(c.MoCnt))
		}

		sendMotion(c.Motion)
	}

	if d.fail != nil {
		return nil, d.fail
	}

	last := d.parks[len(d.parks)-1]

	// leave any mode the motion left open, so both sessions are compared at rest
	if last.Local != "" {
		if ev := d.send([]byte("\x1b")); ev != nil {
			last = ev
		}
	}

	if d.fail != nil {
		return nil, d.fail
	}

	out.after, out.kill, out.local = last.Line, last.Kill, last.Local

	return out, nil
}

func runC17(h *Harness, child *rig.Child, c *C17Case) (*Failure, bool) {
	y, f := runC17Session(h, child, c, "y")
	if f != nil {
		return f, false
	}

	d, f := runC17Session(h, child, c, "d")
	if f != nil {
		return f, false
	}

	desc := fmt.Sprintf("motion %q (op count %d, motion count %d, visual %v) at %d in %q", c.Motion, c.OpCnt, c.MoCnt, c.Visual, c.Pos, y.before)
	tag := "op"

	if c.Visual {
		tag = "visual"
	}

	msig := c.Motion
	if len(msig) == 2 && strings.ContainsAny(msig[:1], "fFtT") {
		msig = msig[:1] + "<c>"
	}

	if y.before != d.before {
		return &Failure{Clause: "infra", Msg: "prefixes differ: " + y.before + " / " + d.before, Infra: true}, false
	}

	if y.after != y.before {
		return failf("yank-unchanged", "c17:yank-edits:"+tag+":"+msig, "yank with %s changed the buffer to %q", desc, y.after), true
	}

	if d.kill != y.kill {
		return failf("same-text", "c17:differ:"+tag+":"+msig, "%s: yank copied %q, delete removed %q (buffer after delete %q)", desc, y.kill, d.kill, d.after), true
	}

	if y.kill == "" {
		if d.after != d.before {
			return failf("failed-motion", "c17:failed-motion-edits:"+tag+":"+msig, "%s: yank copied nothing but delete changed the buffer to %q", desc, d.after), true
		}

		return nil, false
	}

	if !removedRange([]rune(d.before), []rune(d.after), d.kill) {
		return failf("rest-untouched", "c17:rest-touched:"+tag+":"+msig, "%s: delete put %q in the register but the buffer became %q, which is not the original minus that text", desc, d.kill, d.after), true
	}

	trivial := (c.Motion == "h" || c.Motion == "l") && c.OpCnt <= 1 && c.MoCnt <= 1

	return nil, !trivial
}

func TestC17(t *testing.T) {
	nt := map[*C17Case]bool{}

	runProp(t, propDef{
		id: "C17", check: "videlyank", rule: c17Rule,
		newCase: func() any { return new(C17Case) },
		gen:     func(rt *rapid.T) any { return genC17(rt) },
		classify: func(h *Harness, x any) bool {
			c := x.(*C17Case)
			v := nt[c]
			delete(nt, c)

			h.class("motion:" + c.Motion)

			if c.Visual {
				h.class("visual-form")
			} else {
				h.class("operator-pending-form")
			}

			if c.OpCnt > 1 || c.MoCnt > 1 {
				h.class("with-count")
			}

			return v
		},
		run: func(h *Harness, child *rig.Child, x any) *Failure {
			c := x.(*C17Case)
			f, v := runC17(h, child, c)
			nt[c] = v

			return f
		},
	})
}
