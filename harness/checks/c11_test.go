package checks

import (
	"fmt"
	"os"
	"strings"
	"testing"

	"pgregory.net/rapid"

	"verif/harness/proto"
	"verif/harness/rig"
)

// C11 — the terminal is restored on every way out of Readline.

const c11Rule = "buffer shapes (empty, short, wrapped over 2-4 rows on narrow terminals, multi-line through AcceptMultiline, cursor at the end / start / middle, completion menu open, incremental search open, hint shown) x editing mode (emacs, vi insert, vi command, visual) x exit path (accept-line, accept-and-hold, operate-and-get-next, multi-line accept, Ctrl-C on a plain line, Ctrl-C on an open menu which must NOT exit then accept, end-of-file on an empty line, insert-comment, edit-command-line which fails for lack of an editor then accept, a harness-registered command that panics, an injected read error) x prompts (plain, coloured, two-line, with and without a right-side prompt) x terminal sizes; oracle: tcgetattr on the pty right before the call == right after it returned (or after the panic reached the application's recover): all flags, control characters and speeds; on the emulated screen after the return the cursor is in column 0 of a blank row below the last row holding the input (at most one blank row in between, which the library leaves after a line that exactly fills a row) and the last cursor-style sequence seen is the default one (CSI 0 SP q); non-trivial = any exit other than plain accept-line on a one-row buffer; distinct = hash of the case"

type C11Case struct {
	Mode   string      `json:"mode"` // emacs | vi-insert | vi-command | visual
	Text   string      `json:"text"` // "\n" typed through the multi-line rule
	Move   string      `json:"move"` // "" | start | middle
	Open   string      `json:"open"` // "" | menu | isearch
	Exit   string      `json:"exit"`
	Prompt string      `json:"prompt"`
	Cols   int         `json:"cols"`
	Rows   int         `json:"rows"`
	Start  int         `json:"startrow"`
	Vars   [][2]string `json:"vars,omitempty"`
	Right  string      `json:"right,omitempty"` // right-side prompt
}

var c11Exits = []string{"accept-line", "accept-line", "accept-and-hold", "operate-and-get-next", "interrupt", "interrupt-menu", "eof-empty", "insert-comment", "edit-fail", "panic", "read-error"}

func genC11(t *rapid.T) *C11Case {
	c := &C11Case{Mode: rapid.SampledFrom([]string{"emacs", "emacs", "vi-insert", "vi-command", "visual"}).Draw(t, "mode")}
	c.Cols = rapid.SampledFrom([]int{20, 24, 40, 80}).Draw(t, "cols")
	c.Rows = rapid.SampledFrom([]int{12, 24, 40}).Draw(t, "rows")
	c.Start = rapid.SampledFrom([]int{0, 0, 3, c.Rows - 2, c.Rows + 5}).Draw(t, "start")
	c.Prompt = rapid.SampledFrom([]string{"> ", "$ ", "\x1b[32mok\x1b[0m> ", "first line\nsecond> ", ""}).Draw(t, "prompt")

	words := []string{"echo", "hello", "world", "a", "--flag=value", "x y", "(z)", "foo"}

	switch rapid.IntRange(0, 4).Draw(t, "shape") {
	case 0:
		c.Text = ""
	case 1:
		c.Text = rapid.SampledFrom(words).Draw(t, "short")
	case 2: // wrapped
		n := rapid.IntRange(c.Cols-4, 3*c.Cols+3).Draw(t, "wraplen")
		c.Text = strings.Repeat("abcdefghij ", n/11+1)[:n]
	case 3: // exactly filling a row
		pw := rig.StringWidth(stripSGR(lastLine(c.Prompt)))
		n := rapid.IntRange(1, 3).Draw(t, "fillrows")*c.Cols - pw
		if n < 1 {
			n = c.Cols
		}

		c.Text = strings.Repeat("0123456789", n/10+1)[:n]
	default: // multi-line
		c.Text = rapid.SampledFrom(words).Draw(t, "l1") + "\n" + rapid.SampledFrom(words).Draw(t, "l2")
		if rapid.Bool().Draw(t, "three") {
			c.Text += "\n" + rapid.SampledFrom(words).Draw(t, "l3")
		}
	}

	c.Right = rapid.SampledFrom([]string{"", "", "", "[right]", "\x1b[34mR!\x1b[0m"}).Draw(t, "right")
	c.Move = rapid.SampledFrom([]string{"", "", "start", "middle"}).Draw(t, "move")
	c.Open = rapid.SampledFrom([]string{"", "", "", "menu", "isearch"}).Draw(t, "open")
	c.Exit = rapid.SampledFrom(c11Exits).Draw(t, "exit")

	if rapid.IntRange(0, 4).Draw(t, "hint") == 0 {
		c.Vars = append(c.Vars, [2]string{"usage-hint-always", "on"})
	}

	if rapid.IntRange(0, 3).Draw(t, "autosuggest") == 0 {
		c.Vars = append(c.Vars, [2]string{"history-autosuggest", "on"})
	}

	if rapid.IntRange(0, 5).Draw(t, "transient") == 0 {
		c.Vars = append(c.Vars, [2]string{"prompt-transient", "on"})
	}

	return c
}

func termiosDiff(a, b *proto.Termios) string {
	if a == nil || b == nil {
		return "missing termios"
	}

	if a.Err != "" || b.Err != "" {
		return "tcgetattr failed: " + a.Err + b.Err
	}

	out := []string{}

	if a.Iflag != b.Iflag {
		out = append(out, fmt.Sprintf("iflag %#x -> %#x", a.Iflag, b.Iflag))
	}

	if a.Oflag != b.Oflag {
		out = append(out, fmt.Sprintf("oflag %#x -> %#x", a.Oflag, b.Oflag))
	}

	if a.Cflag != b.Cflag {
		out = append(out, fmt.Sprintf("cflag %#x -> %#x", a.Cflag, b.Cflag))
	}

	if a.Lflag != b.Lflag {
		out = append(out, fmt.Sprintf("lflag %#x -> %#x", a.Lflag, b.Lflag))
	}

	if a.Cc != b.Cc {
		out = append(out, fmt.Sprintf("cc %v -> %v", a.Cc, b.Cc))
	}

	if a.Ispeed != b.Ispeed || a.Ospeed != b.Ospeed || a.Line != b.Line {
		out = append(out, "speed/line discipline changed")
	}

	return strings.Join(out, "; ")
}

func runC11(h *Harness, child *rig.Child, c *C11Case) (*Failure, bool) {
	e := h.env()
	mode := "emacs"

	if c.Mode != "emacs" {
		mode = "vi"
	}

	vars := append([][2]string{}, c.Vars...)
	comp := &proto.CompSpec{Cands: []proto.Cand{{Value: "foo"}, {Value: "foobar"}, {Value: "food", Desc: "eat"}, {Value: "bar"}}, Mode: "word"}
	spec := &proto.Spec{Calls: 1, Inputrc: renderVars(mode, vars), Multiline: "backslash", Prompt: &proto.PromptSpec{Primary: c.Prompt, Transient: "T> ", Right: c.Right}, Completer: comp,
		Probes: []proto.ProbeSpec{{Name: "verif-panic", Kind: "panic"}},
		Binds: append(e.bindNames([]string{"accept-line", "accept-and-hold", "operate-and-get-next", "insert-comment", "edit-command-line", "end-of-file", "beginning-of-line", "backward-char", "complete", "menu-complete", "reverse-search-history", "abort"}, mainKeymaps...),
			proto.BindSpec{Keymap: "emacs", Seq: "\x0f", Action: "verif-panic"}, proto.BindSpec{Keymap: "vi-insert", Seq: "\x0f", Action: "verif-panic"}, proto.BindSpec{Keymap: "vi-command", Seq: "\x0f", Action: "verif-panic"},
			proto.BindSpec{Keymap: "emacs", Seq: "\x1b[9999~", Action: "verif-panic"}, proto.BindSpec{Keymap: "vi-insert", Seq: "\x1b[9999~", Action: "verif-panic"}, proto.BindSpec{Keymap: "vi-command", Seq: "\x1b[9999~", Action: "verif-panic"}),
		Hist: []proto.HistSpec{{Kind: "mem", Name: "h", Entries: []string{"echo one", "foo two", "hello\nsecond line of the entry", "echo hello, this is a long history line that wraps on the narrow terminals"}}}}

	if c.Exit == "accept-and-hold" {
		spec.Calls = 2
	}

	s, st := child.Start(spec, rig.SessionOpts{Cols: c.Cols, Rows: c.Rows, StartRow: c.Start, KeepScreens: true})
	d := &drive{h: h, s: s, st: st}

	defer d.close()

	if f := stopFailure(st); f != nil {
		return f, false
	}

	if st.Kind != "park" {
		return &Failure{Clause: "infra", Msg: "no first park: " + st.String(), Infra: true}, false
	}

	d.parks = append(d.parks, st.Ev)
	promptRow := st.X.Row
	scrolled0 := st.X.Scrolled

	for _, r := range c.Text {
		if r == '\n' {
			d.sendAll("\\", "\r")
			continue
		}

		d.send([]byte(string(r)))
	}

	switch c.Mode {
	case "vi-command":
		d.send([]byte("\x1b"))
	case "visual":
		d.send([]byte("\x1b"))
		d.send([]byte("v"))
		d.send([]byte("b"))
	}

	switch c.Move {
	case "start":
		d.send([]byte(e.key("beginning-of-line")))
	case "middle":
		for i := 0; i < len([]rune(c.Text))/2 && i < 30; i++ {
			d.send([]byte(e.key("backward-char")))
		}
	}

	switch c.Open {
	case "menu":
		// menu-complete paints the candidates below the line (complete-word does not)
		d.send([]byte(e.key("menu-complete")))
	case "isearch":
		d.send([]byte(e.key("reverse-search-history")))
		d.send([]byte("o"))
	}

	if d.fail != nil {
		return d.fail, false
	}

	if d.st.Kind != "park" {
		return nil, false
	}

	atExit := d.parks[len(d.parks)-1]

	if os.Getenv("VERIF_TRACE") != "" && d.st.X != nil {
		fmt.Printf("TRACE before the exit key: %s cursor=(%d,%d)\n%s\n", d.st, d.st.X.Row, d.st.X.Col, strings.Join(d.st.X.Dump(), "\n"))
	}
	buffer := atExit.Line

	if atExit.Local == "isearch" {
		buffer = "" // Line() is the minibuffer: the input line is not observable here
	}

	expectReturn := true

	switch c.Exit {
	case "accept-line", "accept-and-hold", "operate-and-get-next", "insert-comment":
		d.send([]byte(e.key(c.Exit)))
	case "interrupt":
		d.send([]byte("\x03"))

		if atExit.Local == "menu-select" || atExit.Local == "isearch" {
			// C-c first closes the helper: a second one interrupts
			if d.fail == nil && d.st.Kind == "park" {
				d.send([]byte("\x03"))
			}
		}
	case "interrupt-menu":
		d.send([]byte(e.key("menu-complete")))
		d.send([]byte("\x03"))

		if d.fail == nil && d.st.Kind == "park" {
			d.send([]byte(e.key("accept-line")))
		}
	case "eof-empty":
		if buffer != "" || atExit.Local != "" {
			return nil, false
		}

		d.send([]byte(e.key("end-of-file")))
	case "edit-fail":
		d.send([]byte(e.key("edit-command-line")))

		if d.fail == nil && d.st.Kind == "park" {
			d.send([]byte(e.key("accept-line")))
		}
	case "panic":
		// a one-byte key: an ESC-prefixed one first closes an open menu
		d.st = d.s.Send([]byte("\x0f"))
	case "read-error":
		d.st = d.s.Fault("ioerr")
	}

	if d.fail != nil {
		return d.fail, true
	}

	st = d.st

	// a multi-line rule may have kept the call open (line ending in a backslash)
	if st.Kind == "park" && expectReturn {
		return nil, false
	}

	var after *proto.Termios

	switch st.Kind {
	case "return":
		after = st.Ev.Termios
	case "panic":
		if c.Exit != "panic" || !strings.Contains(st.Ev.Value, "verif probe panic") {
			return stopFailure(st), true
		}

		after = st.Ev.Termios
	default:
		if f := stopFailure(st); f != nil {
			return f, true
		}

		return &Failure{Clause: "infra", Msg: "unexpected stop " + st.String(), Infra: true}, true
	}

	if os.Getenv("VERIF_TRACE") != "" && st.X != nil {
		fmt.Printf("TRACE final stop %s cursor=(%d,%d) style=%q\n%s\n", st, st.X.Row, st.X.Col, st.X.LastStyle, strings.Join(st.X.Dump(), "\n"))
	}

	ctx := fmt.Sprintf("exit %s in %s with buffer %q (cursor %d, helper %q) on a %dx%d terminal, prompt %q, right prompt %q", c.Exit, c.Mode, buffer, atExit.Pos, atExit.Local, c.Cols, c.Rows, c.Prompt, c.Right)

	// (1) terminal modes
	if len(d.s.CallStarts) == 0 {
		return &Failure{Clause: "infra", Msg: "no call-start event", Infra: true}, true
	}

	if diff := termiosDiff(d.s.CallStarts[0].Termios, after); diff != "" {
		return failf("termios", "c11:termios:"+c.Exit, "%s: terminal settings changed across the call: %s", ctx, diff), true
	}

	// (3) cursor style
	if st.X.LastStyle != "0" {
		return failf("cursor-style", "c11:cursor-style:"+c.Exit, "%s: the last cursor style sequence is CSI %s SP q, not the default (0)", ctx, st.X.LastStyle), true
	}

	// (2) cursor at the start of a fresh row below the input
	if atExit.Local == "isearch" {
		return nil, true
	}

	final := st.Ev.Line
	if st.Kind == "panic" {
		final = buffer
	}

	pw := rig.StringWidth(stripSGR(lastLine(c.Prompt)))
	lay := layoutBuffer(c.Cols, pw, []rune(final), len([]rune(final)), 5)
	r0 := promptRow - (st.X.Scrolled - scrolled0)
	lastText := r0 + lay.EndRow

	if lay.Filled {
		// the cursor row of an exactly filled line is the (empty) next row
	}

	okOne := func(scr *rig.Screen) string {
		if scr.Col != 0 {
			return fmt.Sprintf("cursor in column %d, not 0", scr.Col)
		}

		if scr.Row <= lastText && lastText < scr.H {
			return fmt.Sprintf("cursor on row %d, but the input reaches row %d", scr.Row, lastText)
		}

		// (how far below is not stated: the library leaves a blank row after a line
		// that exactly fills a row, and echoes ^C after the text on an interrupt)

		if !rowBlank(scr, scr.Row) {
			return fmt.Sprintf("the cursor row %d is not blank: %q", scr.Row, scr.RowText(scr.Row))
		}

		// and nothing the call displayed below the input (menu, hint, suggestion) is
		// left between the input and the cursor
		// (only when the row the model says the input ends on really shows the
		// end of the input: scrolling with an empty prompt makes the anchor drift;
		// the ^C echoed on an interrupt may have a row of its own)
		anchored := lastText >= 0 && lastText < scr.H
		if anchored && lay.EndRow >= 0 && len([]rune(final)) > 0 {
			tail := []rune(final)
			if len(tail) > 3 {
				tail = tail[len(tail)-3:]
			}

			anchored = strings.Contains(scr.RowText(lastText), string(tail)) || lay.Filled
		}

		for r := lastText + 1; anchored && r < scr.Row; r++ {
			// the ^C echoed on an interrupt may have a row of its own, and the
			// right-side prompt of a line that exactly fills its last row (or of an
			// empty line) is painted on the row after the text: part of the prompt,
			// not a remnant
			txt := strings.TrimSpace(scr.RowText(r))
			if c.Right != "" {
				txt = strings.TrimSpace(strings.TrimSuffix(txt, stripSGR(c.Right)))
			}

			if txt == "^C" || txt == "C" || txt == "" {
				continue
			}

			if !rowBlank(scr, r) {
				return fmt.Sprintf("row %d, between the input (ends on row %d) and the cursor (row %d), still shows %q", r, lastText, scr.Row, scr.RowText(r))
			}
		}

		return ""
	}

	if c.Vars != nil {
		for _, v := range c.Vars {
			if v[0] == "prompt-transient" {
				return nil, true // the transient prompt repaints the line: rows differ by design
			}
		}
	}

	// Multi-line buffers: how continuation rows are painted is C04's subject; here
	// only "column 0 of a blank row" is required of them.
	if strings.Contains(final, "\n") {
		for _, scr := range []*rig.Screen{st.X, st.V} {
			if scr.Col == 0 && rowBlank(scr, scr.Row) {
				return nil, true
			}
		}

		return failf("fresh-row", "c11:fresh-row-multiline:"+c.Exit, "%s: after the return the cursor is at (%d,%d) and that row shows %q", ctx, st.X.Row, st.X.Col, st.X.RowText(st.X.Row)), true
	}

	if m1, m2 := okOne(st.X), okOne(st.V); m1 != "" && m2 != "" {
		return failf("fresh-row", "c11:fresh-row:"+c.Exit, "%s: after the return %s (screen:\n%s)", ctx, m1, strings.Join(st.X.Dump(), "\n")), true
	}

	nontrivial := c.Exit != "accept-line" || lay.EndRow > 0

	return nil, nontrivial
}

func TestC11(t *testing.T) {
	nt := map[*C11Case]bool{}

	runProp(t, propDef{
		id: "C11", check: "restore", rule: c11Rule,
		setup:   func(h *Harness) { h.env() },
		newCase: func() any { return new(C11Case) },
		gen:     func(rt *rapid.T) any { return genC11(rt) },
		classify: func(h *Harness, x any) bool {
			c := x.(*C11Case)
			v := nt[c]
			delete(nt, c)
			h.class("exit-" + c.Exit)
			h.class("mode-" + c.Mode)

			return v
		},
		run: func(h *Harness, child *rig.Child, x any) *Failure {
			c := x.(*C11Case)
			f, v := runC11(h, child, c)
			nt[c] = v

			return f
		},
	})
}
