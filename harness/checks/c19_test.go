package checks

import (
	"fmt"
	"os"
	"sort"
	"testing"
	"unicode"

	"pgregory.net/rapid"

	"github.com/reeflective/readline"
	"github.com/reeflective/readline/inputrc"

	"verif/harness/rig"
)

// C19 (a) — key-sequence notation round-trips (pure codec part).

const c19Rule = "key sequences over runes 0x00-0xFF plus printable Unicode: exhaustive for every single rune 0x00-0xFF, 2000 sampled printable Unicode runes and every sequence bound in every keymap of a default NewShell().Config; random sequences of length 1-12 biased to notation-significant neighbours (backslash, quotes, C, M, -, x, hex digits after an escape); oracle: Unescape(Escape(s)) == s and Unescape(EscapeMacro(s)) == s; cross-check: Unescape of generated documented notation equals the model decoder's meaning; non-trivial = sequence contains a control, meta or 0x80-0xFF rune, or a quote/backslash; distinct = hash of the sequence"

type C19Case struct {
	Seq   []rune  `json:"seq,omitempty"`
	Notat []RcKey `json:"notation,omitempty"` // cross-check direction
}

func (c *C19Case) nontrivial() bool {
	for _, r := range c.Seq {
		if r < 0x20 || r == 0x7f || (r >= 0x80 && r <= 0xff) || r == '"' || r == '\'' || r == '\\' {
			return true
		}
	}

	return len(c.Notat) > 0
}

func runC19(c *C19Case) *Failure {
	if len(c.Notat) > 0 {
		text := renderKeys(c.Notat)
		want := string(keysRunes(c.Notat))

		if got := inputrc.Unescape(text); got != want {
			return failf("decode", "c19:decode", "Unescape(%q) = %q, the documented notation means %q", text, got, want)
		}

		return nil
	}

	s := string(c.Seq)

	if esc := inputrc.Escape(s); inputrc.Unescape(esc) != s {
		return failf("escape", "c19:escape:"+c19class(c.Seq, []rune(inputrc.Unescape(esc))), "Unescape(Escape(%q)) = %q (escaped form %q)", s, inputrc.Unescape(esc), esc)
	}

	if esc := inputrc.EscapeMacro(s); inputrc.Unescape(esc) != s {
		return failf("escapemacro", "c19:escapemacro:"+c19class(c.Seq, []rune(inputrc.Unescape(esc))), "Unescape(EscapeMacro(%q)) = %q (escaped form %q)", s, inputrc.Unescape(esc), esc)
	}

	return nil
}

// c19class names the class of the first rune that did not survive.
func c19class(want, got []rune) string {
	i := 0
	for i < len(want) && i < len(got) && want[i] == got[i] {
		i++
	}

	if i >= len(want) {
		return "extra"
	}

	r := want[i]

	switch {
	case r < 0x20 || r == 0x7f:
		return "control"
	case r >= 0x80 && r <= 0x9f:
		return "meta-control"
	case r >= 0xa0 && r <= 0xff:
		return "meta"
	case r == '\\' || r == '"' || r == '\'':
		return "quote"
	case r < 0x80:
		return "ascii"
	}

	return "unicode"
}

func genC19(t *rapid.T) *C19Case {
	if rapid.IntRange(0, 4).Draw(t, "direction") == 0 {
		return &C19Case{Notat: genRcSeq(t, 1, 8)}
	}

	r := rapid.Custom(func(t *rapid.T) rune {
		switch rapid.IntRange(0, 6).Draw(t, "rk") {
		case 0:
			return rune(rapid.IntRange(0, 0x1f).Draw(t, "c0"))
		case 1:
			return rune(rapid.IntRange(0x80, 0xff).Draw(t, "hi"))
		case 2:
			return rapid.SampledFrom([]rune{'\\', '"', '\'', 'C', 'M', '-', 'x', 'e', '0', '1', '7', 'a', 'f', '?', '@', '[', 0x7f, 0x1b, 0x1c, ' '}).Draw(t, "sig")
		case 3:
			return genPrintableRune(rapid.IntRange(2, 3).Draw(t, "ucls")).Draw(t, "uni")
		default:
			return rune(rapid.IntRange(0x20, 0x7e).Draw(t, "ascii"))
		}
	})

	return &C19Case{Seq: rapid.SliceOfN(r, 1, 12).Draw(t, "seq")}
}

func TestC19(t *testing.T) {
	os.Setenv("INPUTRC", "/dev/null")

	runProp(t, propDef{
		id: "C19", check: "codec", rule: c19Rule, noChild: true,
		newCase: func() any { return new(C19Case) },
		gen:     func(rt *rapid.T) any { return genC19(rt) },
		classify: func(h *Harness, x any) bool {
			c := x.(*C19Case)

			if len(c.Notat) > 0 {
				h.class("decode-direction")
			} else {
				h.class("escape-direction")
			}

			return c.nontrivial()
		},
		run: func(h *Harness, _ *rig.Child, x any) *Failure { return runC19(x.(*C19Case)) },
		enumerate: func(h *Harness, report func(c any, f *Failure)) {
			// every single rune 0x00-0xFF
			for r := rune(0); r <= 0xff; r++ {
				c := &C19Case{Seq: []rune{r}}
				h.count(c, c.nontrivial())
				h.class("enum-single-rune")
				report(c, runC19(c))
			}

			// every pair of notation-significant runes
			sig := []rune{'\\', '"', '\'', 'C', 'M', '-', 'x', 'e', '0', '7', 'a', 0x1c, 0x1b, 0x7f, 0x80, 0x9b, 0xdc, 0xff, 0x00, 0x0d, 'd', 'r'}
			for _, a := range sig {
				for _, b := range sig {
					for _, d := range sig {
						c := &C19Case{Seq: []rune{a, b, d}}
						h.count(c, c.nontrivial())
						h.class("enum-significant-triples")
						report(c, runC19(c))
					}
				}
			}

			// 2000 printable Unicode runes, deterministic stride over the planes
			n := 0
			for r := rune(0x100); r < 0x30000 && n < 2000; r += 97 {
				if !unicode.IsPrint(r) {
					continue
				}

				n++
				c := &C19Case{Seq: []rune{r}}
				h.count(c, false)
				h.class("enum-printable-unicode")
				report(c, runC19(c))
			}

			// every sequence bound in every keymap of a default shell
			sh := readline.NewShell()
			kms := []string{}

			for km := range sh.Config.Binds {
				kms = append(kms, km)
			}

			sort.Strings(kms)

			for _, km := range kms {
				seqs := []string{}
				for s := range sh.Config.Binds[km] {
					seqs = append(seqs, s)
				}

				sort.Strings(seqs)

				for _, s := range seqs {
					c := &C19Case{Seq: []rune(s)}
					h.count(c, c.nontrivial())
					h.class("enum-default-binds")
					report(c, runC19(c))

					b := sh.Config.Binds[km][s]
					if b.Macro {
						m := &C19Case{Seq: []rune(b.Action)}
						h.count(m, m.nontrivial())
						report(m, runC19(m))
					}
				}
			}

			h.Exhaustive["single runes 0x00-0xFF"] = true
			h.Exhaustive[fmt.Sprintf("all sequences bound in the %d keymaps of a default shell", len(kms))] = true
			h.Exhaustive["triples over 22 notation-significant runes"] = true
		},
	})
}
