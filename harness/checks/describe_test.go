package checks

import (
	"fmt"
	"os"
	"sort"
	"testing"

	"verif/harness/proto"
	"verif/harness/rig"
)

// TestDescribe prints the command names and bind counts of the tree under test
// (a development aid; not part of any check).
func TestDescribe(t *testing.T) {
	if os.Getenv("VERIF_DESCRIBE") == "" {
		t.Skip()
	}

	c, err := rig.StartChild(envRlapp, t.TempDir())
	if err != nil {
		t.Fatal(err)
	}
	defer c.Quit()

	s, _ := c.Start(&proto.Spec{Calls: 1, Describe: true}, rig.SessionOpts{})
	s.Finish()

	d := s.Describe
	fmt.Println(len(d.Commands), "commands")
	for _, n := range d.Commands {
		fmt.Print(n, " ")
	}
	fmt.Println()

	kms := []string{}
	for km := range d.Binds {
		kms = append(kms, km)
	}
	sort.Strings(kms)
	for _, km := range kms {
		fmt.Println(km, len(d.Binds[km]))
	}
	names := []string{}
	for n, v := range d.VarsDesc {
		names = append(names, n+"="+v)
	}
	sort.Strings(names)
	fmt.Println(names)
}
