package checks

import (
	"fmt"
	"strings"

	"verif/harness/rig"
)

// Reference layout of (prompt, buffer, cursor) on a terminal of width W
// (appendix A.2 of DESIGN.md). Rows are relative to the row of the prompt's
// last line.

type cellPos struct{ R, C int }

type Layout struct {
	Cells  map[cellPos]rune
	Marks  map[cellPos][]rune // combining marks
	Cur    cellPos
	CurAlt *cellPos         // second acceptable cell (cursor on a zero-width rune: its base cell or the cell after it)
	Pads   map[cellPos]bool // last-column cells skipped because a double-width rune did not fit
	EndRow int              // last row holding (or reserved by) the buffer
	Filled bool             // the buffer ends exactly at the right margin
	// columns that belong to the text on each row (start column of comparison)
	From map[int]int
}

func stripSGR(s string) string {
	var sb strings.Builder

	for i := 0; i < len(s); i++ {
		if s[i] == 0x1b && i+1 < len(s) && s[i+1] == '[' {
			j := i + 2
			for j < len(s) && (s[j] < 0x40 || s[j] > 0x7e) {
				j++
			}

			i = j

			continue
		}

		sb.WriteByte(s[i])
	}

	return sb.String()
}

// layoutBuffer lays the buffer out. indent = display width of the prompt's last
// line; tabN = cells a TAB is shown as.
func layoutBuffer(w, indent int, buf []rune, cursor, tabN int) *Layout {
	l := &Layout{Cells: map[cellPos]rune{}, Marks: map[cellPos][]rune{}, From: map[int]int{0: indent}, Pads: map[cellPos]bool{}}
	r, x := 0, indent
	last := cellPos{-1, -1}
	curSet := false

	place := func(ch rune, wd int) {
		if x+wd > w {
			for c := x; c < w; c++ {
				l.Pads[cellPos{r, c}] = true
			}

			r++
			x = 0

			if _, ok := l.From[r]; !ok {
				l.From[r] = 0
			}
		}

		l.Cells[cellPos{r, x}] = ch
		last = cellPos{r, x}

		if wd == 2 {
			l.Cells[cellPos{r, x + 1}] = ch
		}

		x += wd
	}

	for i, ch := range buf {
		if ch == '\n' {
			if i == cursor {
				l.Cur, curSet = cellPos{r, x}, true

				if x >= w { // end of an exactly filled line: either the margin or the next row
					l.Cur = cellPos{r + 1, 0}
					l.CurAlt = &cellPos{r, w - 1}
				}
			}

			r++
			x = indent
			l.From[r] = indent
			last = cellPos{-1, -1}

			continue
		}

		wd := rig.RuneWidth(ch)
		if ch == '\t' {
			wd = 1
		}

		if wd == 0 {
			if last.R >= 0 {
				l.Marks[last] = append(l.Marks[last], ch)
			}

			if i == cursor {
				l.Cur, curSet = cellPos{r, x}, true

				if x >= w {
					l.Cur = cellPos{r + 1, 0}
				}

				if last.R >= 0 {
					l.CurAlt = &cellPos{last.R, last.C}
				}
			}

			continue
		}

		reps := 1
		if ch == '\t' {
			reps = tabN
			ch = ' '
		}

		for k := 0; k < reps; k++ {
			place(ch, wd)

			if i == cursor && k == 0 {
				l.Cur, curSet = last, true
			}
		}
	}

	l.EndRow = r

	if !curSet {
		l.Cur = cellPos{r, x}

		if x >= w {
			l.Cur = cellPos{r + 1, 0}
		}
	}

	l.Filled = x >= w

	return l
}

// checkFrame compares one screen with the layout. r0 is the screen row of the
// prompt's last line. It returns "" when the frame is right.
func checkFrame(scr *rig.Screen, r0 int, prompt string, l *Layout, prevEnd int, checkBelow bool, padNote *string) string {
	// (1) the prompt
	if r0 < 0 || r0 >= scr.H {
		return fmt.Sprintf("prompt row %d outside the screen", r0)
	}

	col := 0

	for _, ch := range prompt {
		wd := rig.RuneWidth(ch)
		if wd == 0 {
			continue
		}

		if col >= scr.W {
			break
		}

		if got := scr.Rows[r0][col].R; got != ch && !(ch == ' ' && got == 0) {
			return fmt.Sprintf("prompt: cell (%d,%d) holds %q, expected %q", r0, col, got, ch)
		}

		col += wd
	}

	// (2) every expected cell, (3) everything else in the input rows is blank
	for r := 0; r <= l.EndRow; r++ {
		sr := r0 + r
		if sr >= scr.H {
			return fmt.Sprintf("input row %d is below the screen (height %d)", sr, scr.H)
		}

		from := l.From[r]

		for c := from; c < scr.W; c++ {
			want, has := l.Cells[cellPos{r, c}]
			cell := scr.Rows[sr][c]

			switch {
			case has && want == ' ' && (cell.R == 0 || cell.R == ' '):
			case has:
				if cell.R != want {
					return fmt.Sprintf("cell (%d,%d) holds %q, the buffer puts %q there", sr, c, cell.R, want)
				}

				if cell.W != 0 {
					wm := string(l.Marks[cellPos{r, c}])
					if string(cell.Comb) != wm {
						return fmt.Sprintf("cell (%d,%d) %q carries marks %q, expected %q", sr, c, cell.R, string(cell.Comb), wm)
					}
				}
			case l.Pads[cellPos{r, c}]:
				if cell.R != 0 && cell.R != ' ' && padNote != nil && *padNote == "" {
					*padNote = fmt.Sprintf("cell (%d,%d), the last column, skipped because the double-width character after it did not fit, still holds %q from an earlier frame", sr, c, cell.R)
				}
			default:
				if cell.R != 0 && cell.R != ' ' {
					return fmt.Sprintf("cell (%d,%d) holds %q but no buffer character belongs there (remnant or misplaced text)", sr, c, cell.R)
				}
			}
		}
	}

	// (5) rows that belonged to the previous, taller frame
	if checkBelow {
		for r := l.EndRow + 1; r <= prevEnd; r++ {
			sr := r0 + r
			if sr >= scr.H {
				break
			}

			for c := 0; c < scr.W; c++ {
				if cell := scr.Rows[sr][c]; cell.R != 0 && cell.R != ' ' {
					return fmt.Sprintf("row %d belonged to the previous, taller frame and still shows %q at column %d", sr, cell.R, c)
				}
			}
		}
	}

	return ""
}

func rowBlank(scr *rig.Screen, r int) bool {
	if r < 0 || r >= scr.H {
		return true
	}

	for c := 0; c < scr.W; c++ {
		if cell := scr.Rows[r][c]; cell.R != 0 && cell.R != ' ' {
			return false
		}
	}

	return true
}

func lastLine(s string) string {
	if i := strings.LastIndex(s, "\n"); i >= 0 {
		return s[i+1:]
	}

	return s
}
