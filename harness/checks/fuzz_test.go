package checks

import (
	"fmt"
	"os"
	"path/filepath"
	"runtime/debug"
	"strings"
	"testing"
	"unicode"
	"unicode/utf8"

	"pgregory.net/rapid"

	"github.com/reeflective/readline"
	"github.com/reeflective/readline/inputrc"
)

// Native fuzz targets (thorough tier only): coverage-guided search over the
// in-process parsers/codecs, each with its semantic oracle inside the target.

// FuzzC19Codec: Unescape(Escape(s)) == s over the property's domain.
func FuzzC19Codec(f *testing.F) {
	for _, s := range []string{"", "a", "\x1b[A", "\x18\x05", "\x80", "\xc3\x9c", "\\", "\"'", "\x1cM-a", "ÜC-", "\x7f\r\n\t", "日本", "\\x41", "\\C-\\M-a"} {
		f.Add(s)
	}

	f.Fuzz(func(t *testing.T, s string) {
		if !utf8.ValidString(s) {
			return
		}

		for _, r := range s {
			if r > 0xff && !unicode.IsPrint(r) {
				return // outside the domain: runes 0x00-0xFF plus printable Unicode
			}
		}

		if esc := inputrc.Escape(s); inputrc.Unescape(esc) != s {
			t.Fatalf("Unescape(Escape(%q)) = %q via %q", s, inputrc.Unescape(esc), esc)
		}

		if esc := inputrc.EscapeMacro(s); inputrc.Unescape(esc) != s {
			t.Fatalf("Unescape(EscapeMacro(%q)) = %q via %q", s, inputrc.Unescape(esc), esc)
		}
	})
}

// FuzzC12Parse: any bytes, any options, a self-referential include graph:
// ParseBytes returns. A panic fails the target, a stack overflow or a loop
// kills / stalls the fuzz worker, which the fuzzer reports as a crasher.
func FuzzC12Parse(f *testing.F) {
	debug.SetMaxStack(64 << 20)

	seeds, _ := filepath.Glob("/repo/inputrc/testdata/*.inputrc")
	for _, s := range seeds {
		if b, err := os.ReadFile(s); err == nil {
			f.Add(b, byte(0))
		}
	}

	for _, s := range hostile {
		f.Add([]byte(s+"\nset a on\n"), byte(3))
	}

	f.Add([]byte("$include me\nset a on\n$include other\n"), byte(1))

	f.Fuzz(func(t *testing.T, data []byte, opt byte) {
		if len(data) > 1<<16 {
			return
		}

		cfg := inputrc.NewConfig()
		if opt&1 != 0 {
			cfg = inputrc.NewDefaultConfig()
		}

		cfg.ReadFileFunc = func(name string) ([]byte, error) {
			switch name {
			case "me", "main.rc":
				return data, nil
			case "other":
				return []byte("$include me\n" + string(data)), nil
			}

			return nil, os.ErrNotExist
		}

		opts := []inputrc.Option{inputrc.WithHaltOnErr(opt&2 != 0), inputrc.WithStrict(opt&4 != 0), inputrc.WithMode([]string{"", "emacs", "vi"}[int(opt>>3)%3]),
			inputrc.WithApp("bash"), inputrc.WithTerm("xterm")}
		if opt&64 != 0 {
			opts = append(opts, inputrc.WithName("main.rc"))
		}

		_ = inputrc.ParseBytes(data, cfg, opts...)
	})
}

// FuzzC13Conds drives the C13 grammar and reference evaluator from fuzzer bytes.
func FuzzC13Conds(f *testing.F) {
	h := &Harness{Prop: "C13", Classes: map[string]int{}, nontrivial: map[uint64]struct{}{}, Exhaustive: map[string]bool{}, knownSeen: map[string]int{}}

	f.Fuzz(rapid.MakeFuzz(func(rt *rapid.T) {
		p := genRcProgram(rt)
		if fl := runC13(h, p); fl != nil && knownFinding("C13", fl) == nil {
			rt.Fatalf("%s", fl)
		}
	}))
}

// FuzzC10File: whatever bytes the history file holds (a crash, another writer,
// garbage), opening does not fail or panic, and a line appended through the
// opened handle is returned, last, by the next open.
func FuzzC10File(f *testing.F) {
	f.Add([]byte(`{"datetime":"2026-01-01T00:00:00Z","block":"ls"}`+"\n"), "next")
	f.Add([]byte(`{"datetime":"2026-01-01T00:00:00Z","block":"ls"}`+"\n"+`{"datetime":"2026-01-01T00:00:00Z","blo`), "echo \"x\"")
	f.Add([]byte("garbage\n\n{}\n[1,2]\n\"str\"\n{\"block\":5}\n"), "日本")
	f.Add([]byte{0xff, 0xfe, 0, '\n', '{'}, "a\nb")

	// one directory per fuzz worker process
	dir := filepath.Join(envRunDir, fmt.Sprintf("fuzz-c10-%d", os.Getpid()))
	os.MkdirAll(dir, 0o700)

	f.Fuzz(func(t *testing.T, content []byte, line string) {
		if !utf8.ValidString(line) || strings.TrimSpace(line) == "" || len(content) > 1<<16 {
			return
		}

		path := filepath.Join(dir, "hist-"+strings.ReplaceAll(t.Name(), "/", "_"))
		if err := os.WriteFile(path, content, 0o600); err != nil {
			t.Skip()
		}

		defer os.Remove(path)

		src, err := readline.NewHistoryFromFile(path)
		if err != nil {
			t.Fatalf("opening an existing history file failed: %v", err)
		}

		before := src.Len()

		if _, err := src.Write(line); err != nil {
			t.Fatalf("Write: %v", err)
		}

		re, err := readline.NewHistoryFromFile(path)
		if err != nil {
			t.Fatalf("reopen failed: %v", err)
		}

		if re.Len() < 1 {
			t.Fatalf("appended line not returned: reopened history is empty (had %d)", before)
		}

		last, err := re.GetLine(re.Len() - 1)
		if err != nil || last != strings.TrimSpace(line) {
			t.Fatalf("appended line %q not returned last by the next open: got %q, %v", line, last, err)
		}
	})
}
