package checks

import (
	"fmt"
	"path/filepath"
	"strings"
	"testing"

	"pgregory.net/rapid"

	"verif/harness/proto"
	"verif/harness/rig"
)

// C08 — accepted lines are recorded in history exactly once.

const c08Rule = "1-3 bound history sources (library in-memory, library file-backed, a recording Source of the harness that logs every Write) each with prior contents from a pool (empty, one entry, several, most recent entry equal to the line, equal up to whitespace, 499-1024 entries) x history-size in {unset, 0, 1, 2, |prior|, |prior|+1, 500} set through the inputrc NewShell loads x typed line in {blank, spaces only, text, text with leading/trailing blanks, multi-line through AcceptMultiline, multi-byte} x accept variant in {accept-line, accept-and-hold + second call, operate-and-get-next, accept-and-infer-next-history, interrupt C-c, end-of-file on an empty line, C-d on a non-empty line then accept}, one case in three followed by 1-3 more calls on the same shell (line from a small pool, accept-line or interrupt); oracle = list model per source on Len()/GetLine() before and after: error -> every source unchanged; replay-type accepts -> unchanged; otherwise per source independently: blank -> unchanged, equal (trimmed) to that source's last entry -> unchanged, positive limit reached -> unchanged, else exactly one new last entry equal to the line up to surrounding whitespace and nothing else changed; the recording source also bounds the number of Write calls; history-size 0 may mean unset or record-nothing but the same for all sources; non-trivial = non-blank line with >= 2 sources, or a configured limit, or a duplicate of a last entry, or a non-plain accept variant; distinct = hash of the case"

type C08Case struct {
	Mode    string   `json:"mode"`
	Sources []C08Src `json:"sources"`
	Size    string   `json:"size"` // "" = unset
	Line    string   `json:"line"` // typed (a "\n" is typed as backslash + CR under the multi-line rule)
	Variant string   `json:"variant"`
	// further Readline calls on the same shell: whatever the previous call left
	// in the buffer is cleared, the line typed and accepted (or interrupted)
	More []C08Next `json:"more,omitempty"`
}

type C08Next struct {
	Line    string `json:"line"`
	Variant string `json:"variant"` // accept-line | interrupt
}

type C08Src struct {
	Kind  string   `json:"kind"`
	Prior []string `json:"prior"`
}

var c08Variants = []string{"accept-line", "accept-line", "accept-line", "accept-and-hold", "operate-and-get-next", "accept-and-infer-next-history", "interrupt", "eof-empty", "ctrl-d-nonempty"}

func genC08(t *rapid.T) *C08Case {
	c := &C08Case{Mode: rapid.SampledFrom([]string{"emacs", "emacs", "vi"}).Draw(t, "mode")}
	c.Line = rapid.SampledFrom([]string{"", "   ", "text", " text ", "two words", "echo  hi", "first\nsecond", "日本 語", "x", "ls"}).Draw(t, "line")
	c.Variant = rapid.SampledFrom(c08Variants).Draw(t, "variant")
	ns := rapid.IntRange(1, 3).Draw(t, "nsources")
	maxPrior := 0

	for i := 0; i < ns; i++ {
		s := C08Src{Kind: rapid.SampledFrom([]string{"mem", "file", "rec"}).Draw(t, "kind")}

		switch rapid.IntRange(0, 6).Draw(t, "prior") {
		case 0:
		case 6: // a long history: more entries than any default limit a library might assume
			n := rapid.SampledFrom([]int{499, 500, 501, 1000, 1024}).Draw(t, "nprior")
			for j := 0; j < n; j++ {
				s.Prior = append(s.Prior, fmt.Sprintf("entry %d", j))
			}
		case 1:
			s.Prior = []string{"a"}
		case 2:
			s.Prior = []string{"ls", "echo hi"}
		case 3:
			s.Prior = []string{"old", strings.TrimSpace(c.Line)}
		case 4:
			s.Prior = []string{"old", c.Line}
		default:
			s.Prior = []string{"one", "two", "three", "text"}
		}

		// stored entries are never blank
		clean := []string{}

		for _, p := range s.Prior {
			if strings.TrimSpace(p) != "" {
				clean = append(clean, p)
			}
		}

		s.Prior = clean

		if len(s.Prior) > maxPrior {
			maxPrior = len(s.Prior)
		}

		c.Sources = append(c.Sources, s)
	}

	c.Size = rapid.SampledFrom([]string{"", "", "0", "1", "2", fmt.Sprint(maxPrior), fmt.Sprint(maxPrior + 1), "500"}).Draw(t, "size")

	// several calls on the same shell, lines from a small pool so that a line is
	// often equal to the one recorded just before
	if c.Variant != "accept-and-hold" && rapid.IntRange(0, 2).Draw(t, "hasmore") == 0 {
		for i := rapid.IntRange(1, 3).Draw(t, "nmore"); i > 0; i-- {
			c.More = append(c.More, C08Next{Line: rapid.SampledFrom([]string{c.Line, c.Line, "text", "other", " text", "", "ls"}).Draw(t, "moreline"),
				Variant: rapid.SampledFrom([]string{"accept-line", "accept-line", "accept-line", "interrupt"}).Draw(t, "morevariant")})
		}
	}

	return c
}

func trimmedEq(a, b string) bool { return strings.TrimSpace(a) == strings.TrimSpace(b) }

func runC08(h *Harness, child *rig.Child, c *C08Case) (*Failure, bool) {
	e := h.env()
	vars := [][2]string{{"convert-meta", "off"}, {"input-meta", "on"}, {"output-meta", "on"}}

	if c.Size != "" {
		vars = append(vars, [2]string{"history-size", c.Size})
	}

	calls := 1 + len(c.More)
	if c.Variant == "accept-and-hold" {
		calls = 2
	}

	spec := &proto.Spec{Calls: calls, Inputrc: renderVars(c.Mode, vars), Multiline: "backslash", Prompt: &proto.PromptSpec{Primary: "> "},
		Binds: e.bindNames([]string{"accept-line", "accept-and-hold", "operate-and-get-next", "accept-and-infer-next-history", "end-of-file", "kill-whole-line", "end-of-history"}, mainKeymaps...)}

	for i, s := range c.Sources {
		hs := proto.HistSpec{Kind: s.Kind, Name: fmt.Sprintf("src%d", i), Entries: s.Prior}
		if s.Kind == "file" {
			hs.Path = filepath.Join(child.Scratch, fmt.Sprintf("hist-%d", i))
		}

		spec.Hist = append(spec.Hist, hs)
	}

	d := openDrive(h, child, spec, rig.SessionOpts{Cols: 100, Rows: 30})
	defer d.close()

	if d.fail != nil {
		return d.fail, false
	}

	if d.s.Configured == nil || len(d.s.Configured.Hist) != len(c.Sources) {
		return &Failure{Clause: "infra", Msg: "no configured event", Infra: true}, false
	}

	before := d.s.Configured.Hist

	// file-backed sources store trimmed text, and collapse consecutive duplicates
	// at load time? No: compare against what the source itself reports before.
	for _, r := range c.Line {
		if r == '\n' {
			d.sendAll("\\", "\r")
			continue
		}

		d.send([]byte(string(r)))
	}

	if d.fail != nil {
		return d.fail, false
	}

	typed := d.parks[len(d.parks)-1].Line
	expectErr := false
	replay := false

	switch c.Variant {
	case "accept-line", "accept-and-hold", "operate-and-get-next", "accept-and-infer-next-history":
		d.send([]byte(e.key(c.Variant)))

		replay = c.Variant == "operate-and-get-next" || c.Variant == "accept-and-infer-next-history"
	case "interrupt":
		d.send([]byte("\x03"))

		expectErr = true
	case "eof-empty":
		if typed != "" {
			return nil, false
		}

		d.send([]byte(e.key("end-of-file")))

		expectErr = true
	case "ctrl-d-nonempty":
		if typed == "" {
			return nil, false
		}

		d.send([]byte("\x01"))
		d.send([]byte("\x04"))

		if d.fail == nil && d.st.Kind == "park" {
			typed = d.st.Ev.Line
			d.send([]byte(e.key("accept-line")))
		}
	}

	if d.fail != nil {
		return d.fail, false
	}

	if d.st.Kind != "return" {
		return failf("no-return", "c08:no-return", "variant %s on %q did not return: %s", c.Variant, typed, d.st), true
	}

	ret := d.st.Ev

	if expectErr != ret.HasErr {
		return failf("error", "c08:error-mismatch", "variant %s on %q: returned error %q (expected an error: %v)", c.Variant, typed, ret.Err, expectErr), true
	}

	line := ret.Line
	limit := 0
	fmt.Sscanf(c.Size, "%d", &limit)

	check := func(call string, before, after [][]string, writes [][]string, line string, mustBeUnchanged bool) *Failure {
		recorded := []bool{}
		ri := 0

		for i, s := range c.Sources {
			b, a := before[i], after[i]
			desc := fmt.Sprintf("%s, source %d (%s, %d prior entries, history-size %q), line %q", call, i, s.Kind, len(b), c.Size, line)

			unchanged := eqStrings(a, b)
			appended := len(a) == len(b)+1 && eqStrings(a[:len(b)], b) && trimmedEq(a[len(b)], line)

			if s.Kind == "rec" {
				if ri < len(writes) && len(writes[ri]) > 1 {
					return failf("write-once", "c08:written-twice", "%s: Write was called %d times: %q", desc, len(writes[ri]), writes[ri])
				}

				ri++
			}

			blank := strings.TrimSpace(line) == ""
			dupLast := len(b) > 0 && trimmedEq(b[len(b)-1], line)
			limited := limit > 0 && len(b) >= limit

			switch {
			case mustBeUnchanged || blank || dupLast || limited:
				if !unchanged {
					why := "error / replay-type accept"
					switch {
					case blank:
						why = "blank line"
					case dupLast:
						why = "equal to the source's most recent entry"
					case limited:
						why = "limit reached"
					}

					return failf("must-not-record", "c08:recorded:"+strings.Fields(why)[0], "%s: the source must stay unchanged (%s) but went from %q to %q", desc, why, b, a)
				}

				recorded = append(recorded, false)
			case c.Size == "0":
				// unset or record-nothing: decided below, consistently
				if !unchanged && !appended {
					return failf("append-once", "c08:bad-append", "%s: went from %q to %q", desc, b, a)
				}

				recorded = append(recorded, appended)
			default:
				if !appended {
					sig := "c08:not-recorded"
					if limit > 0 {
						sig = "c08:not-recorded:limit"
					}

					if len(c.Sources) > 1 {
						sig += ":multi"
					}

					return failf("append-once", sig, "%s: expected exactly one new last entry equal to the line, got %q -> %q", desc, b, a)
				}

				recorded = append(recorded, true)
			}
		}

		if c.Size == "0" && !mustBeUnchanged {
			any, all := false, true

			for i, r := range recorded {
				b := before[i]
				skip := strings.TrimSpace(line) == "" || (len(b) > 0 && trimmedEq(b[len(b)-1], line))

				if skip {
					continue
				}

				any = any || r
				all = all && r
			}

			if any && !all {
				return failf("size0-consistent", "c08:size0-inconsistent", "%s: history-size 0 recorded the line in some sources and not in others: %v", call, recorded)
			}
		}

		return nil
	}

	if f := check("call 1 ("+c.Variant+")", before, ret.Hist, ret.Writes, line, ret.HasErr || replay); f != nil {
		return f, true
	}

	if c.Variant == "accept-and-hold" {
		// second call: the held line is in the buffer; accept it again
		st := d.s.Next()
		if f := stopFailure(st); f != nil {
			return f, true
		}

		if st.Kind != "park" {
			return failf("hold", "c08:hold-no-second-call", "no second call after accept-and-hold: %s", st), true
		}

		d.st = st

		if st.Ev.Line != line {
			return failf("hold", "c08:hold-line", "accept-and-hold of %q: the next call starts with %q", line, st.Ev.Line), true
		}

		d.send([]byte(e.key("accept-line")))

		if d.fail != nil {
			return d.fail, true
		}

		if d.st.Kind != "return" || d.st.Ev.HasErr {
			return failf("hold", "c08:hold-return", "second accept did not return cleanly: %s", d.st), true
		}

		if f := check("call 2 (accept-line of the held line)", ret.Hist, d.st.Ev.Hist, d.st.Ev.Writes, d.st.Ev.Line, false); f != nil {
			return f, true
		}
	}

	// further calls on the same shell
	prev := ret.Hist

	for i, nx := range c.More {
		st := d.s.Next()
		if f := stopFailure(st); f != nil {
			return f, true
		}

		if st.Kind != "park" {
			return &Failure{Clause: "infra", Msg: "no further call: " + st.String(), Infra: true}, true
		}

		d.st = st
		d.parks = append(d.parks, st.Ev)

		// a replay-type accept leaves a history line in the buffer: go back to the
		// line being typed and empty it
		if st.Ev.Line != "" {
			d.send([]byte(e.key("end-of-history")))
			d.send([]byte(e.key("kill-whole-line")))

			if d.fail != nil {
				return d.fail, true
			}

			if d.st.Kind != "park" || d.st.Ev.Line != "" {
				return nil, true // cannot get an empty line back: nothing to judge
			}
		}

		for _, r := range nx.Line {
			if r == '\n' {
				d.sendAll("\\", "\r")
				continue
			}

			d.send([]byte(string(r)))
		}

		if d.fail != nil {
			return d.fail, true
		}

		if nx.Variant == "interrupt" {
			d.send([]byte("\x03"))
		} else {
			d.send([]byte(e.key("accept-line")))
		}

		if d.fail != nil {
			return d.fail, true
		}

		if d.st.Kind != "return" {
			return failf("no-return", "c08:no-return", "call %d (%s on %q) did not return: %s", i+2, nx.Variant, nx.Line, d.st), true
		}

		r2 := d.st.Ev

		if (nx.Variant == "interrupt") != r2.HasErr {
			return failf("error", "c08:error-mismatch", "call %d (%s on %q): returned error %q", i+2, nx.Variant, nx.Line, r2.Err), true
		}

		if f := check(fmt.Sprintf("call %d (%s after %s)", i+2, nx.Variant, c.Variant), prev, r2.Hist, r2.Writes, r2.Line, r2.HasErr); f != nil {
			f.Sig += ":later-call"
			return f, true
		}

		prev = r2.Hist
	}

	nonblank := strings.TrimSpace(line) != ""
	dup := false

	for i := range c.Sources {
		if b := before[i]; len(b) > 0 && trimmedEq(b[len(b)-1], line) {
			dup = true
		}
	}

	return nil, nonblank && (len(c.Sources) >= 2 || limit > 0 || dup || c.Variant != "accept-line")
}

func TestC08(t *testing.T) {
	nt := map[*C08Case]bool{}

	runProp(t, propDef{
		id: "C08", check: "histwrite", rule: c08Rule,
		setup:   func(h *Harness) { h.env() },
		newCase: func() any { return new(C08Case) },
		gen:     func(rt *rapid.T) any { return genC08(rt) },
		classify: func(h *Harness, x any) bool {
			c := x.(*C08Case)
			v := nt[c]
			delete(nt, c)
			h.class("variant-" + c.Variant)
			h.class(fmt.Sprintf("sources-%d", len(c.Sources)))
			h.class("size-" + c.Size)

			return v
		},
		run: func(h *Harness, child *rig.Child, x any) *Failure {
			c := x.(*C08Case)
			f, v := runC08(h, child, c)
			nt[c] = v

			return f
		},
	})
}
