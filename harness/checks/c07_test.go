package checks

import (
	"fmt"
	"os"
	"strconv"
	"strings"
	"testing"

	"pgregory.net/rapid"

	"verif/harness/proto"
	"verif/harness/rig"
)

// C07 — undo walks back through real earlier states; redo reverses undo.

const c07Rule = "command sequences over an alphabet of 13 commands (emacs: insert x, insert blank, backward-delete-char, kill-word, unix-line-discard, yank, transpose-chars, backward-char, end-of-line, previous-history, next-history, undo, redo; vi: i x ESC, x, dw, p, h, $, k, j, u, redo ...), one command per read so every intermediate buffer is observed; bounded-exhaustive: EVERY sequence of length 3 (quick) / 5 (thorough) from two start states (empty line with a 2-entry history; typed text) in both modes, partitioned over the shards; random sequences up to length 60 beyond, over that alphabet plus 11 more commands per mode (multi-byte insertions, kill-line, case and transpose commands, numeric arguments, quoted insert, word movements; vi: r, cw, X, P, C, counts) and multi-byte start texts; oracle = invariants over the snapshot sequence per line identity (identity = history slot, tracked by the walk index model): (1) the buffer after an undo step was shown before for that line, (2) enough undos at the end reach that line's initial content, (3) for each block undo^n redo^n the buffer after equals the buffer before, (4) after undo^k then an edit, redo leaves the buffer unchanged; non-trivial = an undo preceded by >= 2 distinct buffers, or a redo, or an edit after an undo; distinct = hash of the case"

type C07Case struct {
	Mode  string `json:"mode"`  // emacs | vi
	Start string `json:"start"` // "" | text typed first
	Seq   []int  `json:"seq"`   // indices into the alphabet of the mode
}

type c07Cmd struct {
	name string
	keys []string // reads
	kind string   // edit | move | prev | next | undo | redo
}

func c07Alphabet(e *Env, mode string) []c07Cmd {
	redo := e.key("redo")

	if mode == "emacs" {
		return []c07Cmd{
			{"insert-x", []string{"x"}, "edit"}, {"insert-blank", []string{" "}, "edit"}, {"backward-delete-char", []string{"\x7f"}, "edit"},
			{"kill-word", []string{"\x1bd"}, "edit"}, {"unix-line-discard", []string{"\x15"}, "edit"}, {"yank", []string{"\x19"}, "edit"},
			{"transpose-chars", []string{"\x14"}, "edit"}, {"backward-char", []string{"\x02"}, "move"}, {"end-of-line", []string{"\x05"}, "move"},
			{"previous-history", []string{"\x10"}, "prev"}, {"next-history", []string{"\x0e"}, "next"},
			{"undo", []string{"\x1f"}, "undo"}, {"redo", []string{redo}, "redo"},
			// beyond the enumerated 13: random part only
			{"insert-wide", []string{"日"}, "edit"}, {"insert-accent", []string{"é"}, "edit"}, {"kill-line", []string{"\x0b"}, "edit"},
			{"beginning-of-line", []string{"\x01"}, "move"}, {"forward-char", []string{"\x06"}, "move"}, {"upcase-word", []string{"\x1bu"}, "edit"},
			{"transpose-words", []string{"\x1bt"}, "edit"}, {"backward-kill-word", []string{"\x1b\x7f"}, "edit"}, {"arg3-insert-y", []string{"\x1b3", "y"}, "edit"},
			{"quoted-insert-C-a", []string{"\x16", "\x01"}, "edit"}, {"backward-word", []string{"\x1bb"}, "move"},
		}
	}

	return []c07Cmd{
		{"i-x-esc", []string{"i", "x", "\x1b"}, "edit"}, {"a-blank-esc", []string{"a", " ", "\x1b"}, "edit"}, {"x", []string{"x"}, "edit"},
		{"dw", []string{"d", "w"}, "edit"}, {"D", []string{"D"}, "edit"}, {"p", []string{"p"}, "edit"},
		{"tilde", []string{"~"}, "edit"}, {"h", []string{"h"}, "move"}, {"dollar", []string{"$"}, "move"},
		{"k", []string{"k"}, "prev"}, {"j", []string{"j"}, "next"},
		{"u", []string{"u"}, "undo"}, {"redo", []string{redo}, "redo"},
		// beyond the enumerated 13: random part only
		{"i-wide-esc", []string{"i", "日", "\x1b"}, "edit"}, {"A-accent-esc", []string{"A", "é", "\x1b"}, "edit"}, {"r-Z", []string{"r", "Z"}, "edit"},
		{"cw-y-esc", []string{"c", "w", "y", "\x1b"}, "edit"}, {"X", []string{"X"}, "edit"}, {"P", []string{"P"}, "edit"},
		{"zero", []string{"0"}, "move"}, {"w", []string{"w"}, "move"}, {"C", []string{"C", "\x1b"}, "edit"}, {"3x", []string{"3", "x"}, "edit"}, {"b", []string{"b"}, "move"},
	}
}

var c07Hist = []string{"first entry", "second one"}

func genC07(t *rapid.T) *C07Case {
	c := &C07Case{Mode: rapid.SampledFrom([]string{"emacs", "emacs", "vi"}).Draw(t, "mode")}
	c.Start = rapid.SampledFrom([]string{"", "ab cd", "hello", "日本 é x", "a b c d"}).Draw(t, "start")
	// weights: undo/redo more frequent; 13-23 = the commands beyond the enumerated alphabet
	idx := rapid.SampledFrom([]int{0, 0, 1, 2, 2, 3, 4, 5, 6, 7, 8, 9, 10, 11, 11, 11, 11, 11, 11, 12, 12, 12, 12, 12, 13, 14, 15, 16, 17, 18, 19, 20, 21, 22, 23})
	// chunks: single commands, and the blocks clauses (3) and (4) are about
	// (undo^n redo^n; undo^k, an edit, redo) so that they occur with every prefix
	nchunks := rapid.IntRange(1, 40).Draw(t, "nchunks")

	for i := 0; i < nchunks && len(c.Seq) < 60; i++ {
		switch rapid.IntRange(0, 9).Draw(t, "chunk") {
		case 0:
			n := rapid.IntRange(1, 4).Draw(t, "nundo")
			for j := 0; j < n; j++ {
				c.Seq = append(c.Seq, 11)
			}

			for j := 0; j < n; j++ {
				c.Seq = append(c.Seq, 12)
			}
		case 1:
			for j := rapid.IntRange(1, 3).Draw(t, "kundo"); j > 0; j-- {
				c.Seq = append(c.Seq, 11)
			}

			c.Seq = append(c.Seq, rapid.SampledFrom([]int{0, 1, 2, 13, 14}).Draw(t, "edit"), 12)
		default:
			c.Seq = append(c.Seq, idx.Draw(t, "cmd"))
		}
	}

	return c
}

type c07Step struct {
	kind string
	buf  string
	id   int
	name string
}

func runC07(h *Harness, child *rig.Child, c *C07Case) (*Failure, bool) {
	e := h.env()
	alpha := c07Alphabet(e, c.Mode)
	spec := &proto.Spec{Calls: 1, Inputrc: renderVars(c.Mode, nil), Prompt: &proto.PromptSpec{Primary: "> "},
		Binds: e.bindNames([]string{"redo"}, mainKeymaps...), Hist: []proto.HistSpec{{Kind: "mem", Name: "h", Entries: c07Hist}}}

	d := openDrive(h, child, spec, rig.SessionOpts{Cols: 100, Rows: 30})
	defer d.close()

	for _, r := range c.Start {
		d.send([]byte(string(r)))
	}

	if c.Mode == "vi" {
		d.send([]byte("\x1b"))
	}

	if d.fail != nil {
		return d.fail, false
	}

	n := len(c07Hist)
	p := 0
	initial := map[int]string{0: ""}
	seen := map[int]map[string]bool{0: {}}

	// everything shown while typing the start text belongs to the in-progress line
	for _, ev := range d.parks {
		seen[0][ev.Line] = true
	}

	steps := []c07Step{{kind: "start", buf: d.parks[len(d.parks)-1].Line, id: 0}}

	arrive := func(id int, shown string) {
		if seen[id] == nil {
			seen[id] = map[string]bool{}
		}

		if _, ok := initial[id]; !ok {
			initial[id] = c07Hist[n-id]
		}

		seen[id][shown] = true
	}

	names := []string{}

	for _, ci := range c.Seq {
		if ci < 0 || ci >= len(alpha) {
			continue
		}

		cmd := alpha[ci]
		names = append(names, cmd.name)

		for ki, k := range cmd.keys {
			ev := d.send([]byte(k))
			if ev == nil {
				if d.fail != nil {
					d.fail.Msg = fmt.Sprintf("sequence %v: %s", names, d.fail.Msg)
					return d.fail, false
				}

				return &Failure{Clause: "discard", Msg: "call-ended"}, false
			}

			kind := cmd.kind
			if ki < len(cmd.keys)-1 && kind != "edit" {
				kind = "move"
			}

			switch kind {
			case "prev":
				if p < n {
					p++
				}

				arrive(p, ev.Line)
			case "next":
				if p > 0 {
					p--
				}

				arrive(p, ev.Line)
			}

			steps = append(steps, c07Step{kind: kind, buf: ev.Line, id: p, name: cmd.name})

			if kind == "undo" {
				if !seen[p][ev.Line] {
					return failf("undo-membership", "c07:"+c.Mode+":undo-unseen", "sequence %v from %q: undo produced %q, which was never shown before for this line (slot %d, shown so far: %s)",
						names, c.Start, ev.Line, p, keysOf(seen[p])), true
				}
			}

			seen[p][ev.Line] = true
		}
	}

	// (3) undo^n redo^n blocks, (4) edit after undo then redo
	for i := 1; i < len(steps); i++ {
		if steps[i].kind != "undo" || steps[i-1].kind == "undo" {
			continue
		}

		j := i
		for j < len(steps) && steps[j].kind == "undo" {
			j++
		}

		nu := j - i
		k := j

		for k < len(steps) && steps[k].kind == "redo" && k-j < nu {
			k++
		}

		// An undo at the oldest state does nothing. When the block starts in the
		// middle of the line's history (it follows a redo that left states ahead),
		// the n redos then go further forward than the undos went back: the
		// statement's "n undos" are n steps back, so such a block is not judged.
		// It is judged when the block starts at the newest state (the last command
		// that was not a movement changed the buffer): redo cannot overshoot there.
		clamped := false

		for u := i; u < j; u++ {
			if steps[u].buf == steps[u-1].buf {
				clamped = true
			}
		}

		atTop := false

		for b := i - 1; b >= 0; b-- {
			if steps[b].kind == "move" {
				continue
			}

			atTop = steps[b].kind == "start" || (steps[b].kind == "edit" && b > 0 && steps[b].buf != steps[b-1].buf)

			break
		}

		if k-j == nu && steps[i-1].id == steps[k-1].id && clamped && !atTop {
			h.class("undo-redo-block-not-judged(clamped-undo-mid-history)")
		}

		if k-j == nu && steps[i-1].id == steps[k-1].id && !(clamped && !atTop) {
			if steps[k-1].buf != steps[i-1].buf {
				return failf("undo-redo", "c07:"+c.Mode+":undo-redo", "sequence %v from %q: %d undo(s) followed by %d redo(s) turned %q into %q (states: %s)",
					names, c.Start, nu, nu, steps[i-1].buf, steps[k-1].buf, c07States(steps[i-1:k])), true
			}
		}

		// (4)
		if j+1 < len(steps) && steps[j].kind == "edit" && steps[j].buf != steps[j-1].buf && steps[j+1].kind == "redo" && steps[j].id == steps[j+1].id {
			if steps[j+1].buf != steps[j].buf {
				return failf("branch-discard", "c07:"+c.Mode+":redo-after-edit", "sequence %v from %q: after undo then the edit %s (buffer %q), redo changed the buffer to %q: the redo branch was not discarded",
					names, c.Start, steps[j].name, steps[j].buf, steps[j+1].buf), true
			}
		}
	}

	// (2) enough undos reach the initial content of the current line
	undoKey := alpha[11].keys[0]
	last := steps[len(steps)-1].buf

	for i := 0; i < len(steps)+4; i++ {
		ev := d.send([]byte(undoKey))
		if ev == nil {
			if d.fail != nil {
				return d.fail, false
			}

			return &Failure{Clause: "discard", Msg: "call-ended"}, false
		}

		last = ev.Line
		if last == initial[p] {
			break
		}
	}

	if last != initial[p] {
		return failf("reach-initial", "c07:"+c.Mode+":reach-initial", "sequence %v from %q: %d undos at the end stop at %q, the line's initial content is %q (slot %d)",
			names, c.Start, len(steps)+4, last, initial[p], p), true
	}

	// non-triviality
	nontrivial := false
	distinct := map[string]bool{}

	for i, s := range steps {
		if s.kind == "redo" {
			nontrivial = true
		}

		if s.kind == "undo" && len(distinct) >= 2 {
			nontrivial = true
		}

		if s.kind == "edit" && i > 0 && steps[i-1].kind == "undo" {
			nontrivial = true
		}

		distinct[s.buf] = true
	}

	return nil, nontrivial
}

func keysOf(m map[string]bool) string {
	out := []string{}
	for k := range m {
		out = append(out, strconv.Quote(k))
	}

	if len(out) > 12 {
		out = out[:12]
	}

	return "{" + strings.Join(out, ", ") + "}"
}

func c07States(steps []c07Step) string {
	out := []string{}
	for _, s := range steps {
		out = append(out, fmt.Sprintf("%s:%q", s.kind, s.buf))
	}

	return strings.Join(out, " ")
}

func TestC07(t *testing.T) {
	nt := map[*C07Case]bool{}

	runProp(t, propDef{
		id: "C07", check: "undo", rule: c07Rule,
		setup:   func(h *Harness) { h.env() },
		newCase: func() any { return new(C07Case) },
		gen:     func(rt *rapid.T) any { return genC07(rt) },
		classify: func(h *Harness, x any) bool {
			c := x.(*C07Case)
			v := nt[c]
			delete(nt, c)
			h.class("mode-" + c.Mode)

			return v
		},
		run: func(h *Harness, child *rig.Child, x any) *Failure {
			c := x.(*C07Case)
			f, v := runC07(h, child, c)
			nt[c] = v

			return f
		},
		enumAllShards: true,
		enumerate: func(h *Harness, report func(c any, f *Failure)) {
			shard, _ := strconv.Atoi(envShard)
			shards, _ := strconv.Atoi(getenv("VERIF_SHARDS", "1"))

			if shards < 1 {
				shards = 1
			}

			depth := 3
			if thorough() {
				depth = 5
			}

			if v := os.Getenv("VERIF_C07_DEPTH"); v != "" {
				depth, _ = strconv.Atoi(v)
			}

			total := 1
			for i := 0; i < depth; i++ {
				total *= 13
			}

			count := 0

			for _, mode := range []string{"emacs", "vi"} {
				for _, start := range []string{"", "ab cd"} {
					for i := 0; i < total; i++ {
						count++
						if count%shards != shard%shards {
							continue
						}

						seq := make([]int, depth)
						v := i

						for k := depth - 1; k >= 0; k-- {
							seq[k] = v % 13
							v /= 13
						}

						c := &C07Case{Mode: mode, Start: start, Seq: seq}
						f, nontriv := runC07(h, h.Child(), c)
						h.count(c, nontriv)
						h.class("enumerated")
						report(c, f)

						// (a watchdog expiry is confirmed or dismissed by report)
						if f != nil && f.Clause != "discard" && !f.Infra && !strings.HasPrefix(f.Clause, "hang") && knownFinding("C07", f) == nil {
							return
						}
					}
				}
			}

			h.Exhaustive[fmt.Sprintf("all sequences of length %d over the 13-command alphabet x 2 start states x {emacs, vi} (prefixes cover every shorter sequence)", depth)] = true
		},
	})
}
