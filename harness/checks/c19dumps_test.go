package checks

import (
	"fmt"
	"regexp"
	"sort"
	"strconv"
	"strings"
	"testing"

	"pgregory.net/rapid"

	"verif/harness/proto"
	"verif/harness/rig"
)

// C19, second sentence — the dumps printed in inputrc format, parsed back,
// reproduce the configuration.

const c19DumpsRule = "configurations = 0-8 generated binds added to a default shell in the emacs or vi-command keymap (sequences of 1-3 keys starting with a control key, then any of: letters, digits, quotes, backslash, percent, colon, space, control characters, ESC, DEL, Latin-1 and other printable Unicode runes; each bound to an existing command or to a macro whose body is a string over the same alphabet) x 0-4 variable settings; the three dump commands are run with a numeric argument in a real session and their output (taken from the terminal byte stream, escape sequences removed) is written as the inputrc of a second shell; oracle: the second shell's binds of that keymap (sequence -> action, macro or function) and its variables (name -> type and value) equal the first shell's; non-trivial = at least one generated macro, or a sequence / body with a quote, backslash, percent, control or non-ASCII rune; distinct = hash of the case"

type C19Bind struct {
	Seq   K    `json:"seq"`
	Act   K    `json:"act"` // command name, or macro body (raw bytes)
	Macro bool `json:"macro,omitempty"`
}

type C19DumpCase struct {
	Keymap string      `json:"keymap"` // emacs | vi-command
	Binds  []C19Bind   `json:"binds"`
	Vars   [][2]string `json:"vars,omitempty"`
}

var c19First = []string{"\x18", "\x0f", "\x1d", "\x18\x18"}
var c19Keys = []string{"a", "Z", "1", "\"", "'", "\\", "%", ":", " ", "-", "#", "$", "\x01", "\x1b", "\x7f", "\x1c", "\t", "\r", "é", "ÿ", "日", " ", "%s", "%d", "\\e", "C-",
	// Latin-1 runes that are the meta form of a character special to the notation (" \\ ' : % #)
	"¢", "Ü", "§", "º", "¥", "£"}
var c19Funcs = []string{"forward-char", "kill-line", "self-insert", "beginning-of-line", "yank", "undo", "accept-line", "vi-movement-mode"}

func genC19Dump(t *rapid.T) *C19DumpCase {
	c := &C19DumpCase{Keymap: rapid.SampledFrom([]string{"emacs", "emacs", "vi-command"}).Draw(t, "keymap")}
	n := rapid.IntRange(0, 8).Draw(t, "nbinds")

	for i := 0; i < n; i++ {
		seq := rapid.SampledFrom(c19First).Draw(t, "first")

		for j, m := 0, rapid.IntRange(0, 2).Draw(t, "more"); j < m; j++ {
			seq += rapid.SampledFrom(c19Keys).Draw(t, "key")
		}

		b := C19Bind{Seq: encs(seq)}

		if rapid.Bool().Draw(t, "macro") {
			body := ""

			for j, m := 0, rapid.IntRange(1, 6).Draw(t, "bodylen"); j < m; j++ {
				body += rapid.SampledFrom(c19Keys).Draw(t, "bkey")
			}

			b.Act, b.Macro = encs(body), true
		} else {
			b.Act = encs(rapid.SampledFrom(c19Funcs).Draw(t, "func"))
		}

		c.Binds = append(c.Binds, b)
	}

	for i, m := 0, rapid.IntRange(0, 4).Draw(t, "nvars"); i < m; i++ {
		switch rapid.IntRange(0, 2).Draw(t, "vkind") {
		case 0:
			c.Vars = append(c.Vars, [2]string{rapid.SampledFrom([]string{"history-size", "completion-query-items", "keyseq-timeout"}).Draw(t, "ivar"), fmt.Sprint(rapid.SampledFrom([]int{0, 1, 7, 500}).Draw(t, "ival"))})
		case 1:
			c.Vars = append(c.Vars, [2]string{rapid.SampledFrom([]string{"comment-begin", "bell-style", "emacs-mode-string", "vi-ins-mode-string", "isearch-terminators"}).Draw(t, "svar"),
				rapid.SampledFrom([]string{"#", "//", "none", "visible", "x y", "=>", "日", "%d"}).Draw(t, "sval")})
		default:
			c.Vars = append(c.Vars, [2]string{rapid.SampledFrom(boolVars).Draw(t, "bvar"), rapid.SampledFrom([]string{"on", "off"}).Draw(t, "bval")})
		}
	}

	return c
}

var (
	reCSI = regexp.MustCompile("\x1b\\[[0-9;?]*[ -/]*[@-~]")
	reOSC = regexp.MustCompile("\x1b\\][^\x07]*\x07")
)

// dumpLines extracts the lines of a dump from the terminal byte stream. A dump
// line is everything between two newlines; only what precedes it on its line
// (cursor movements of the redisplay before the dump) is removed, its own
// bytes are kept as they are.
func dumpLines(raw []byte, want func(string) bool) []string {
	s := reOSC.ReplaceAllString(string(raw), "")
	out := []string{}

	for _, l := range strings.Split(s, "\n") {
		l = strings.TrimRight(l, "\r")

		for {
			if loc := reCSI.FindStringIndex(l); loc != nil && loc[0] == 0 {
				l = l[loc[1]:]
				continue
			}

			if strings.HasPrefix(l, "\r") {
				l = l[1:]
				continue
			}

			break
		}

		if want(l) {
			out = append(out, l)
		}
	}

	return out
}

func runC19Dump(h *Harness, child *rig.Child, c *C19DumpCase) (*Failure, bool) {
	e := h.env()
	mode := "emacs"

	if c.Keymap != "emacs" {
		mode = "vi"
	}

	vars := append([][2]string{{"convert-meta", "off"}, {"input-meta", "on"}, {"output-meta", "on"}}, c.Vars...)
	names := []string{"dump-functions", "dump-macros", "dump-variables"}
	spec := &proto.Spec{Calls: 1, Describe: true, Inputrc: renderVars(mode, vars), Prompt: &proto.PromptSpec{Primary: "> "}, Binds: e.bindNames(names, c.Keymap)}
	nontrivial := false

	for _, b := range c.Binds {
		seq, act := string(b.Seq.dec()), string(b.Act.dec())

		if b.Macro {
			act = inputrcEscape(act)
			nontrivial = true
		}

		if strings.ContainsAny(seq+act, "\"\\%") || hasNonASCII(seq+act) {
			nontrivial = true
		}

		spec.Binds = append(spec.Binds, proto.BindSpec{Keymap: c.Keymap, Seq: seq, Action: act, Macro: b.Macro})
	}

	s, st := child.Start(spec, rig.SessionOpts{Cols: 200, Rows: 50, KeepRaw: true})
	d := &drive{h: h, s: s, st: st}

	if f := stopFailure(st); f != nil {
		d.close()
		return f, nontrivial
	}

	first := s.Describe

	if first == nil || st.Kind != "park" {
		d.close()
		return &Failure{Clause: "infra", Msg: "no describe event / park: " + st.String(), Infra: true}, nontrivial
	}

	arg := "\x1b1"

	if c.Keymap == "vi-command" {
		d.send([]byte("\x1b"))
		arg = "1"
	}

	dump := []string{}

	for i, name := range names {
		d.send([]byte(arg))
		d.send([]byte(e.key(name)))

		if d.fail != nil || d.st.Kind != "park" {
			break
		}

		want := func(l string) bool { return strings.HasPrefix(l, "\"") }
		if i == 2 {
			want = func(l string) bool { return strings.HasPrefix(l, "set ") }
		}

		dump = append(dump, dumpLines(d.st.Raw, want)...)
	}

	d.close()

	if d.fail != nil {
		return d.fail, nontrivial
	}

	if d.st.Kind != "park" {
		return &Failure{Clause: "infra", Msg: "dump command ended the call: " + d.st.String(), Infra: true}, nontrivial
	}

	// ---- the dump as the configuration of a second shell
	text := strings.Join(dump, "\n") + "\n"

	if c.Keymap == "vi-command" {
		text = "set keymap vi-command\n" + text
	}

	spec2 := &proto.Spec{Calls: 1, Describe: true, Inputrc: text, Prompt: &proto.PromptSpec{Primary: "> "}, Binds: e.bindNames(names, c.Keymap)}
	s2, st2 := child.Start(spec2, rig.SessionOpts{Cols: 200, Rows: 50})
	second := s2.Describe
	h.Sessions++
	s2.Finish()

	if f := stopFailure(st2); f != nil {
		return f, nontrivial
	}

	if second == nil {
		return &Failure{Clause: "infra", Msg: "no describe event in the second shell", Infra: true}, nontrivial
	}

	ctx := fmt.Sprintf("keymap %s, generated binds %s", c.Keymap, c19Describe(c))

	// binds of the dumped keymap
	a, b := first.BindsQ[c.Keymap], second.BindsQ[c.Keymap]
	keys := map[string]bool{}

	for k := range a {
		keys[k] = true
	}

	for k := range b {
		keys[k] = true
	}

	sorted := []string{}
	for k := range keys {
		sorted = append(sorted, k)
	}

	sort.Strings(sorted)

	for _, k := range sorted {
		x, inA := a[k]
		y, inB := b[k]

		switch {
		case inA && !inB:
			return failf("dump-binds", "c19:dump:bind-lost", "%s: sequence %s is bound to %s in the shell but not in the one configured from its dumps (dump lines: %q)", ctx, k, c19Act(x), c19Grep(dump, k)), true
		case !inA && inB:
			return failf("dump-binds", "c19:dump:bind-invented", "%s: the shell configured from the dumps binds %s to %s, the original does not bind it (dump lines: %q)", ctx, k, c19Act(y), c19Grep(dump, k)), true
		case x != y:
			return failf("dump-binds", "c19:dump:bind-differs", "%s: sequence %s is bound to %s, the shell configured from the dumps has %s (dump lines: %q)", ctx, k, c19Act(x), c19Act(y), c19Grep(dump, k)), true
		}
	}

	// variables
	names2 := []string{}
	for k := range first.VarsDesc {
		names2 = append(names2, k)
	}

	sort.Strings(names2)

	for _, k := range names2 {
		if x, y := first.VarsDesc[k], second.VarsDesc[k]; x != y {
			return failf("dump-vars", "c19:dump:var:"+k, "%s: variable %s is %s in the shell and %s in the one configured from its dumps (dump line: %q)", ctx, k, x, y, c19Grep(dump, "set "+k+" ")), true
		}
	}

	return nil, nontrivial
}

func c19Act(b proto.BindDesc) string {
	if b.Macro {
		return "macro " + b.Action
	}

	return "function " + b.Action
}

func c19Grep(lines []string, key string) []string {
	out := []string{}
	plain, _ := strconv.Unquote(key)

	for _, l := range lines {
		if strings.Contains(l, key) || (plain != "" && strings.Contains(l, plain)) {
			out = append(out, l)
		}
	}

	if len(out) > 4 {
		out = out[:4]
	}

	return out
}

func c19Describe(c *C19DumpCase) string {
	parts := []string{}

	for _, b := range c.Binds {
		kind := "function"
		if b.Macro {
			kind = "macro"
		}

		parts = append(parts, fmt.Sprintf("\"%s\" => %s \"%s\"", b.Seq, kind, b.Act))
	}

	return "[" + strings.Join(parts, "; ") + "]"
}

func TestC19Dumps(t *testing.T) {
	nt := map[*C19DumpCase]bool{}

	runProp(t, propDef{
		id: "C19", check: "dumps", rule: c19DumpsRule,
		setup:   func(h *Harness) { h.env() },
		newCase: func() any { return new(C19DumpCase) },
		gen:     func(rt *rapid.T) any { return genC19Dump(rt) },
		classify: func(h *Harness, x any) bool {
			c := x.(*C19DumpCase)
			v := nt[c]
			delete(nt, c)
			h.class("keymap-" + c.Keymap)

			return v
		},
		run: func(h *Harness, child *rig.Child, x any) *Failure {
			c := x.(*C19DumpCase)
			f, v := runC19Dump(h, child, c)
			nt[c] = v

			return f
		},
	})
}
