package checks

import (
	"fmt"
	"os"
	"strings"
	"testing"

	"pgregory.net/rapid"

	"verif/harness/proto"
	"verif/harness/rig"
)

// C20 — resizes and async prints never break an edit in progress.

const c20Rule = "editing scripts (typed ASCII / wide text, cursor movements, kills, yank, undo, history recall; no width-dependent command) of 2-10 steps ended by accept-line, run twice in the same process: undisturbed, then with 1-4 disturbances placed at moments the harness owns: (park) while Readline waits for input, also between the two keys of a two-key sequence, and with the next typed text arriving in the same terminal write as the report the disturbance's redisplay asks for (type-ahead); (hold) while a command registered by the harness is executing and blocked; (query) while the main loop's own cursor-position query is unanswered, which is in the middle of a redisplay; disturbance = terminal resized to another width + SIGWINCH, SIGWINCH alone, burst of 2-12 resizes+signals, Shell.Printf or Shell.PrintTransientf from another goroutine, or a signal and a Printf together; rest is detected from the child's own goroutine dump (resize goroutine back in its select, Printf returned, Readline goroutine parked / held / in its query), never from delays; oracle: no panic, fatal error, deadlock or spin; the line returned equals the undisturbed run's; at every wait that follows typed keys the screen shows prompt+buffer+cursor for the CURRENT width (C04 layout); thorough: child built with the race detector, any report is a violation; non-trivial = a disturbance at hold or query, or a burst, or a width change while the buffer is wrapped; distinct = hash of the case"

type C20Step struct {
	Text K      `json:"text,omitempty"`
	Cmd  string `json:"cmd,omitempty"`
}

type C20Dist struct {
	At    int    `json:"at"`    // before step At (park) / instead of ... see Point
	Point string `json:"point"` // park | split | hold | query
	Kind  string `json:"kind"`  // resize | winch | burst | printf | transientf | both
	Cols  int    `json:"cols,omitempty"`
	N     int    `json:"n,omitempty"`
	Text  string `json:"text,omitempty"`
	Merge bool   `json:"merge,omitempty"`
	Cut   int    `json:"cut,omitempty"` // split: keys of the sequence delivered before the disturbance
	// park, one disturbing goroutine: the keys of the NEXT (typed text) step reach
	// the terminal queue together with the report this disturbance's redisplay
	// asks for, in one write, in front of it: type-ahead while the resize or the
	// Printf is being handled
	Glue bool `json:"glue,omitempty"`
}

type C20Case struct {
	Mode   string    `json:"mode"`
	Cols   int       `json:"cols"`
	Rows   int       `json:"rows"`
	Start  int       `json:"startrow"`
	Prompt string    `json:"prompt"`
	Hist   []string  `json:"hist"`
	Steps  []C20Step `json:"steps"`
	Dists  []C20Dist `json:"dists"`
	// PlayKnown: also deliver the disturbances at the moments recorded as known
	// findings (during the main loop's own cursor query; two disturbing
	// goroutines at once); otherwise they are left out and counted
	PlayKnown bool `json:"play_known,omitempty"`
}

var c20Cmds = []string{"backward-char", "forward-char", "beginning-of-line", "end-of-line", "backward-word", "forward-word", "backward-kill-word", "kill-line",
	"backward-kill-line", "yank", "undo", "previous-history", "next-history", "transpose-chars", "delete-char", "backward-delete-char", "kill-whole-line"}

var c20Runes = []rune("abcdefgh xyz01 .-/日本é")

func genC20(t *rapid.T) *C20Case {
	c := &C20Case{Mode: rapid.SampledFrom([]string{"emacs", "emacs", "vi"}).Draw(t, "mode")}
	c.Cols = rapid.SampledFrom([]int{20, 30, 40, 80}).Draw(t, "cols")
	c.Rows = rapid.SampledFrom([]int{16, 24}).Draw(t, "rows")
	c.Start = rapid.SampledFrom([]int{0, 0, 3, c.Rows - 2}).Draw(t, "start")
	c.Prompt = rapid.SampledFrom([]string{"> ", "$ ", "\x1b[32mok\x1b[0m> ", "first line\nsecond> "}).Draw(t, "prompt")
	c.Hist = rapid.SampledFrom([][]string{{}, {"echo hello world", "ls -la"}, {"a rather long history line that wraps on narrow terminals", "short"}, {"日本語 コマンド", "é accent"}}).Draw(t, "hist")

	n := rapid.IntRange(2, 10).Draw(t, "nsteps")
	for i := 0; i < n; i++ {
		var s C20Step

		switch rapid.IntRange(0, 3).Draw(t, "kind") {
		case 3:
			// a command that reads its argument key itself
			s.Cmd = "quoted-insert"
			s.Text = encs(rapid.SampledFrom([]string{"x", "\t", "q"}).Draw(t, "argkey"))
		case 0:
			s.Cmd = rapid.SampledFrom(c20Cmds).Draw(t, "cmd")
		case 1:
			// long enough to wrap on the narrow terminals
			k := rapid.IntRange(15, 50).Draw(t, "long")
			s.Text = encs(strings.Repeat("0123456789", 5)[:k])
		default:
			s.Text = enc([]byte(string(rapid.SliceOfN(rapid.SampledFrom(c20Runes), 1, 10).Draw(t, "text"))))
		}

		c.Steps = append(c.Steps, s)
	}

	nd := rapid.IntRange(1, 4).Draw(t, "ndists")
	for i := 0; i < nd; i++ {
		d := C20Dist{At: rapid.IntRange(0, n).Draw(t, "at")}
		d.Point = rapid.SampledFrom([]string{"park", "park", "park", "split", "split", "hold", "hold", "hold", "query"}).Draw(t, "point")
		d.Kind = rapid.SampledFrom([]string{"resize", "resize", "winch", "burst", "printf", "transientf", "both"}).Draw(t, "dkind")
		d.Cols = rapid.SampledFrom([]int{20, 25, 30, 40, 60, 80, 100}).Draw(t, "newcols")
		d.N = rapid.IntRange(2, 12).Draw(t, "burst")
		d.Text = rapid.SampledFrom([]string{"async message", "job 1 done\nexit status 0", "a message that is longer than some of the narrow terminals are wide", ""}).Draw(t, "msg")
		d.Merge = rapid.Bool().Draw(t, "merge")
		d.Cut = rapid.IntRange(1, 3).Draw(t, "cut")

		if c.Mode == "vi" && d.Cut == 1 {
			d.Cut = 2 // a lone ESC is a key of its own in vi (timing, see C05)
		}

		d.Glue = d.Point == "park" && d.Kind != "both" && d.Kind != "burst" && rapid.IntRange(0, 2).Draw(t, "glue") == 0
		c.Dists = append(c.Dists, d)
	}

	c.PlayKnown = rapid.IntRange(0, 15).Draw(t, "playknown") == 0

	return c
}

// c20Frame checks the screen of a stop against the layout for the width.
func c20Frame(st *rig.Stop, cols int, prompt string) string {
	ev := st.Ev
	buf := []rune(ev.Line)
	pw := rig.StringWidth(prompt)
	l := layoutBuffer(cols, pw, buf, ev.Pos, 5)
	first := ""

	curs := []cellPos{l.Cur}
	if l.CurAlt != nil {
		curs = append(curs, *l.CurAlt)
	}

	for _, scr := range []*rig.Screen{st.X, st.V} {
		if scr == nil {
			continue
		}

		if scr.W != cols {
			return fmt.Sprintf("harness: screen width %d, expected %d", scr.W, cols)
		}

		for _, cur := range curs {
			msg := ""
			pad := ""

			if scr.Col != cur.C {
				msg = fmt.Sprintf("the terminal cursor is in column %d, the buffer cursor (index %d) belongs in column %d", scr.Col, ev.Pos, cur.C)
			} else {
				msg = checkFrame(scr, scr.Row-cur.R, prompt, l, -1, false, &pad)
			}

			if msg == "" {
				return ""
			}

			if first == "" {
				first = msg
			}
		}
	}

	return first
}

const c20HoldKey = "\x1b[9998~"

func runC20(h *Harness, child *rig.Child, c *C20Case) (*Failure, bool) {
	e := h.env()
	prompt := stripSGR(lastLine(c.Prompt))

	mkSpec := func() *proto.Spec {
		spec := &proto.Spec{Calls: 1, Inputrc: renderVars(c.Mode, [][2]string{{"convert-meta", "off"}, {"input-meta", "on"}, {"output-meta", "on"}}),
			Prompt: &proto.PromptSpec{Primary: c.Prompt},
			Probes: []proto.ProbeSpec{{Name: "verif-hold", Kind: "hold"}},
			Binds:  e.bindNames(append([]string{"accept-line", "quoted-insert"}, c20Cmds...), mainKeymaps...),
			Hist:   []proto.HistSpec{{Kind: "mem", Name: "h", Entries: c.Hist}}}

		for _, km := range mainKeymaps {
			spec.Binds = append(spec.Binds, proto.BindSpec{Keymap: km, Seq: c20HoldKey, Action: "verif-hold"})
		}

		return spec
	}

	stepChunks := func(s C20Step) [][]byte {
		switch {
		case s.Cmd != "" && s.Text != "":
			return [][]byte{[]byte(e.key(s.Cmd)), s.Text.dec()}
		case s.Cmd != "":
			return [][]byte{[]byte(e.key(s.Cmd))}
		}

		return [][]byte{s.Text.dec()}
	}

	trace := os.Getenv("VERIF_TRACE") != ""

	// ---- which disturbances are played
	n := len(c.Steps)
	parkD, splitD, holdD, queryD := make([][]C20Dist, n+1), make([][]C20Dist, n+1), make([][]C20Dist, n+1), make([][]C20Dist, n+1)

	for _, x := range c.Dists {
		if x.At < 0 || x.At > n {
			continue
		}

		if !c.PlayKnown {
			if x.Point == "query" {
				h.classN("excluded-known-finding-query-point", 1)
				continue
			}

			if x.Kind == "both" {
				h.classN("excluded-known-finding-two-at-once", 1)
				x.Kind = "resize"
			}
		}

		switch x.Point {
		case "park":
			parkD[x.At] = append(parkD[x.At], x)
		case "split":
			splitD[x.At] = append(splitD[x.At], x)
		case "hold":
			holdD[x.At] = append(holdD[x.At], x)
		case "query":
			queryD[x.At] = append(queryD[x.At], x)
		}
	}

	// ---- 1. the undisturbed run (with the same harness commands executed)
	base := openDrive(h, child, mkSpec(), rig.SessionOpts{Cols: c.Cols, Rows: c.Rows, StartRow: c.Start})

	for i := 0; i <= n && base.fail == nil && base.st.Kind == "park"; i++ {
		if len(holdD[i]) > 0 {
			r := base.s.SendUntil([]byte(c20HoldKey))
			if r.Kind == "held" {
				base.s.Release("verif-hold")
				r = base.s.Next()
			}

			base.st = r

			if f := stopFailure(r); f != nil {
				base.fail = f
			}
		}

		if i < n {
			for _, b := range stepChunks(c.Steps[i]) {
				base.send(b)
			}
		}
	}

	base.send([]byte(e.key("accept-line")))
	base.close()

	if base.fail != nil {
		return base.fail, false
	}

	if base.st.Kind != "return" || base.st.Ev.HasErr {
		return nil, false
	}

	want := base.st.Ev.Line

	// ---- 2. the disturbed run
	s, st := child.Start(mkSpec(), rig.SessionOpts{Cols: c.Cols, Rows: c.Rows, StartRow: c.Start, KeepScreens: true})
	d := &drive{h: h, s: s, st: st}

	defer d.close()

	if f := stopFailure(st); f != nil {
		return f, false
	}

	if st.Kind != "park" {
		return &Failure{Clause: "infra", Msg: "no first park: " + st.String(), Infra: true}, false
	}

	cols := c.Cols
	disturbed := false
	nontrivial := false
	history := []string{}
	lastPoint, lastParties := "none", 0

	ctx := func() string {
		return fmt.Sprintf("%dx%d terminal, prompt %q, schedule [%s]", c.Cols, c.Rows, prompt, strings.Join(history, "; "))
	}

	fail := func(st *rig.Stop) *Failure {
		f := stopFailure(st)
		if f == nil {
			return nil
		}

		f.Msg = ctx() + ": " + f.Msg

		if st.Kind == "hang" {
			// the moment of the last disturbance, and whether more than one
			// disturbing goroutine was at work, name the finding
			switch {
			case lastPoint == "query":
				f.Sig = "c20:hang:query"
			case lastParties > 1:
				f.Sig = "c20:hang:" + lastPoint + ":two-at-once"
			default:
				f.Sig = "c20:hang:" + lastPoint + ":single"
			}
		}

		return f
	}

	var sigErr *Failure

	sigFail := func(r *rig.Stop) {
		if r != nil && sigErr == nil {
			if sigErr = stopFailure(r); sigErr == nil {
				sigErr = &Failure{Clause: "infra", Msg: r.String(), Infra: true}
			}
		}
	}

	// deliver returns the number of goroutines it set to work
	deliver := func(x C20Dist) int {
		wrapped := st.Ev != nil && rig.StringWidth(st.Ev.Line)+rig.StringWidth(prompt) > cols

		resize := func(w int) {
			if w == cols {
				w = cols + 7
			}

			child.SetSize(w, c.Rows)
			cols = w
		}

		parties := 1
		disturbed = true
		lastPoint = x.Point

		switch x.Kind {
		case "resize":
			resize(x.Cols)
			sigFail(s.Winch())

			if wrapped {
				nontrivial = true
			}
		case "winch":
			sigFail(s.Winch())
		case "burst":
			for i := 0; i < x.N; i++ {
				if i%2 == 0 {
					resize(x.Cols)
				} else {
					resize(c.Cols)
				}

				sigFail(s.Winch())
			}

			nontrivial = true
		case "printf":
			s.Printf(x.Text, false)
		case "transientf":
			s.Printf(x.Text, true)
		case "both":
			resize(x.Cols)
			sigFail(s.Winch())
			s.Printf(x.Text, false)

			parties = 2
		}

		history = append(history, fmt.Sprintf("%s(%s)", x.Kind, x.Point))

		return parties
	}

	// settle adopts the newest wait as the current stop
	settle := func(w rig.SettleWant) *Failure {
		if sigErr != nil {
			return sigErr
		}

		r := s.Settle(w)

		if f := fail(r); f != nil {
			return f
		}

		if r.Ev != nil {
			st = r
			d.st = r
		}

		if trace {
			fmt.Printf("TRACE settle %+v -> %s (cols %d)\n", w, r, cols)
		}

		return nil
	}

	checkFrameNow := func(what string) *Failure {
		if st.Kind != "park" || st.Ev.Kind != "main" || st.Ev.Local != "" || st.X == nil {
			return nil
		}

		if strings.Contains(st.Ev.Line, "\n") || c04Unprintable(st.Ev.Line) {
			return nil
		}

		l := layoutBuffer(cols, rig.StringWidth(prompt), []rune(st.Ev.Line), st.Ev.Pos, 5)
		if l.EndRow+3+strings.Count(c.Prompt, "\n") >= c.Rows {
			return nil
		}

		if msg := c20Frame(st, cols, prompt); msg != "" {
			return failf("screen", "c20:screen", "%s: after %s (width now %d) the screen does not show buffer %q with the cursor at %d: %s\n%s", ctx(), what, cols, st.Ev.Line, st.Ev.Pos, msg, strings.Join(st.X.Dump(), "\n"))
		}

		h.classN("frames-checked-after-disturbance", 1)

		return nil
	}

	send := func(b []byte, what string) *Failure {
		st = s.Send(b)
		d.st = st

		if trace {
			fmt.Printf("TRACE send %q -> %s\n", b, st)
		}

		if f := fail(st); f != nil {
			return f
		}

		history = append(history, what)

		if disturbed {
			return checkFrameNow(what)
		}

		return nil
	}

	// one at a time: each disturbance comes to rest before the next
	oneByOne := func(list []C20Dist, main string) *Failure {
		for _, x := range list {
			lastParties = deliver(x)

			if f := settle(rig.SettleWant{Main: main}); f != nil {
				return f
			}
		}

		return nil
	}

steps:
	for i := 0; i <= n; i++ {
		if st.Kind != "park" {
			break
		}

		// (park) while waiting for input
		typedAhead := false

		if i < n && c.Steps[i].Cmd == "" && len(parkD[i]) > 0 && parkD[i][0].Glue && parkD[i][0].Kind != "both" && len(holdD[i]) == 0 && len(splitD[i]) == 0 && len(queryD[i]) == 0 {
			// the next step's text arrives glued in front of the report that the
			// first disturbance's redisplay asks for
			keys := c.Steps[i].Text.dec()
			child.SetGlue(keys, true)

			lastParties = deliver(parkD[i][0])
			history[len(history)-1] += fmt.Sprintf("+typeahead %q", keys)

			if f := settle(rig.SettleWant{Main: "parked"}); f != nil {
				child.CancelGlue()
				return f, nontrivial
			}

			if child.GluePending() {
				child.CancelGlue() // no report was asked for: the keys are typed below as usual
			} else {
				typedAhead = true
				nontrivial = true

				h.classN("typeahead-glued-to-async-report", 1)
			}

			if f := oneByOne(parkD[i][1:], "parked"); f != nil {
				return f, nontrivial
			}
		} else if f := oneByOne(parkD[i], "parked"); f != nil {
			return f, nontrivial
		}

		// (hold) a harness command is executing
		if len(holdD[i]) > 0 {
			r := s.SendUntil([]byte(c20HoldKey))
			if r.Kind != "held" {
				if f := fail(r); f != nil {
					return f, nontrivial
				}

				// the keys did not run the command (an operator or an argument was
				// pending): the schedule cannot be played
				return nil, false
			}

			nontrivial = true

			if f := oneByOne(holdD[i], "held"); f != nil {
				return f, nontrivial
			}

			s.Release("verif-hold")
			st = s.Next()
			d.st = st

			if trace {
				fmt.Printf("TRACE released -> %s\n", st)
			}

			if f := fail(st); f != nil {
				return f, nontrivial
			}

			if st.Kind != "park" {
				break
			}
		}

		if i == n {
			break
		}

		if typedAhead {
			continue // the step's keys were delivered with the report
		}

		step := c.Steps[i]
		chunks := stepChunks(step)
		what := step.Cmd

		if what == "" {
			what = fmt.Sprintf("%q", chunks[0])
		}

		// (split) between the keys of one sequence, or between a command and
		// the argument key it reads itself
		if len(splitD[i]) > 0 {
			cut := splitD[i][0].Cut

			switch {
			case len(chunks) == 2:
			case step.Cmd != "" && len(chunks[0]) > 2:
				if cut < 1 || cut >= len(chunks[0]) {
					cut = 2
				}

				chunks = [][]byte{chunks[0][:cut], chunks[0][cut:]}
			}

			if f := send(chunks[0], what+"[first keys]"); f != nil {
				return f, nontrivial
			}

			if st.Kind != "park" {
				break steps
			}

			if f := oneByOne(splitD[i], "parked"); f != nil {
				return f, nontrivial
			}

			chunks = chunks[1:]
			what += "[rest]"
		}

		if len(queryD[i]) > 0 && len(chunks) == 1 {
			// (query) the main loop's own query stays unanswered while the
			// disturbance happens
			child.HoldReports()
			r := s.SendUntil(chunks[0])

			if r.Kind != "query" {
				child.ReleaseReports(false)

				if f := fail(r); f != nil {
					return f, nontrivial
				}

				// the step ended the call or parked without querying: nothing to disturb
				st = r
				d.st = r

				continue
			}

			lastParties = 1

			for _, x := range queryD[i] {
				lastParties += deliver(x)
			}

			nontrivial = true
			history = append(history, what+"[query held]")

			if f := settle(rig.SettleWant{Main: "query", Blocked: true}); f != nil {
				child.ReleaseReports(false)
				return f, nontrivial
			}

			child.ReleaseReports(queryD[i][0].Merge)
			st = s.NextOrDeadlock()
			d.st = st

			if trace {
				fmt.Printf("TRACE reports released -> %s\n", st)
			}

			if f := fail(st); f != nil {
				return f, nontrivial
			}

			// whatever was still in flight comes to rest before the next key
			if st.Kind == "park" {
				if f := settle(rig.SettleWant{Main: "parked"}); f != nil {
					return f, nontrivial
				}
			}

			continue
		}

		for _, b := range chunks {
			if st.Kind != "park" {
				break steps
			}

			if f := send(b, what); f != nil {
				return f, nontrivial
			}
		}
	}

	if st.Kind == "park" {
		if f := settle(rig.SettleWant{Main: "parked"}); f != nil {
			return f, nontrivial
		}

		st = s.Send([]byte(e.key("accept-line")))
		d.st = st

		if f := fail(st); f != nil {
			return f, nontrivial
		}
	}

	if st.Kind != "return" {
		return &Failure{Clause: "infra", Msg: "disturbed run did not return: " + st.String(), Infra: true}, nontrivial
	}

	if st.Ev.HasErr || st.Ev.Line != want {
		return failf("line", "c20:line", "%s: Readline returned (%q, err %q); the same keys without disturbances return %q", ctx(), st.Ev.Line, st.Ev.Err, want), nontrivial
	}

	return nil, nontrivial
}

func TestC20(t *testing.T) { testC20(t, "async") }

// TestC20Race is the same search run against a child built with the race
// detector (thorough tier; the driver sets VERIF_CHILD_GORACE).
func TestC20Race(t *testing.T) { testC20(t, "async-race") }

func testC20(t *testing.T, check string) {
	nt := map[*C20Case]bool{}

	runProp(t, propDef{
		id: "C20", check: check, rule: c20Rule,
		setup:   func(h *Harness) { h.env() },
		newCase: func() any { return new(C20Case) },
		gen:     func(rt *rapid.T) any { return genC20(rt) },
		classify: func(h *Harness, x any) bool {
			c := x.(*C20Case)
			v := nt[c]
			delete(nt, c)

			for _, d := range c.Dists {
				h.class("point-" + d.Point)
				h.class("kind-" + d.Kind)
			}

			return v
		},
		run: func(h *Harness, child *rig.Child, x any) *Failure {
			c := x.(*C20Case)
			f, v := runC20(h, child, c)
			nt[c] = v

			// thorough tier: the child is built with the race detector
			if os.Getenv("VERIF_CHILD_GORACE") != "" && (f == nil || knownFinding("C20", f) != nil) {
				if log := child.TakeRaceLog(); log != "" {
					h.classN("cases-with-race-reports", 1)

					if rf := raceFailure("C20", log, fmt.Sprintf("%dx%d terminal, %d steps, %d disturbances", c.Cols, c.Rows, len(c.Steps), len(c.Dists))); rf != nil && (f == nil || knownFinding("C20", rf) == nil) {
						f = rf
					}
				}
			}

			// the size is part of the child's state: put it back
			child.SetSize(80, 24)

			return f
		},
	})
}
