package checks

import (
	"fmt"
	"sort"
	"strings"
	"testing"

	"pgregory.net/rapid"

	"verif/harness/proto"
	"verif/harness/rig"
)

// C03 — key sequences run exactly the command they are bound to.

const c03Rule = "bind tables of 1-12 sequences (length 1-4) over the alphabet {a b c [ 1 ESC C-a C-x M-a DEL}, built by construction to contain prefix chains (s, s.x, s.x.y), siblings and disjoint entries, each bound to a distinct probe command (Keymap.Register + Config.Bind) or, one in four, to a macro whose body is a string over the alphabet resolved through the same table (no self-reference, depth <= 2; a command NAMED like a printable macro body is registered unbound and must never run); the tested keymap's binds are REPLACED by the table; keymaps: emacs, vi-insert, vi-command as main, vi-opp and vi-visual as local (entered through a probe calling Keymap.SetLocal), and emacs underneath an active local keymap whose only bind is ESC Q, Q not in the alphabet (every key must fall through to the main keymap's table); convert-meta on/off; input = 1-12 keys biased to walk the table (full matches, proper prefixes then a ruling-out key, unbound keys), delivered one key per read (which times every invocation) and again in a single read; oracle = reference resolver (longest-match automaton, appendix A.1) whose emissions (probe, key index) must equal the probe log; where the statement is silent the model branches (ruling-out key dropped or re-dispatched; keys of a failed sequence all given up, or only the first with the rest starting over) and any branch is accepted; ESC is left out of the alphabet in vi and local keymaps (lone ESC is decided by timing there); non-trivial = the table has a prefix overlap that the input exercises, or a macro is resolved; distinct = hash of the case"

type C03Bind struct {
	Seq   []string `json:"seq"`             // key names of the alphabet
	Macro []string `json:"macro,omitempty"` // macro body (key names); nil = probe
}

type C03Case struct {
	Keymap  string    `json:"keymap"`
	Convert bool      `json:"convert_meta"`
	Table   []C03Bind `json:"table"`
	Input   []string  `json:"input"`
}

// key name -> (bytes typed, runes of the bound sequence)
func c03Key(name string, convert bool) (typed string, bound string) {
	switch name {
	case "ESC":
		return "\x1b", "\x1b"
	case "C-a":
		return "\x01", "\x01"
	case "C-x":
		return "\x18", "\x18"
	case "DEL":
		return "\x7f", "\x7f"
	case "M-a":
		// typed the way terminals send it: ESC a; bound as the meta rune
		return "\x1ba", string(rune(0xe1))
	}

	return name, name
}

func c03Alphabet(keymap string) []string {
	if keymap == "emacs" || keymap == "emacs+local" {
		return []string{"a", "b", "c", "[", "1", "ESC", "C-a", "C-x", "M-a", "DEL"}
	}

	return []string{"a", "b", "c", "[", "1", "C-a", "C-x", "DEL"}
}

// the model works on "atoms": M-a counts as the two atoms ESC a
func c03Atoms(names []string) []string {
	out := []string{}

	for _, n := range names {
		if n == "M-a" {
			out = append(out, "ESC", "a")
		} else {
			out = append(out, n)
		}
	}

	return out
}

func genC03(t *rapid.T) *C03Case {
	c := &C03Case{Keymap: rapid.SampledFrom([]string{"emacs", "emacs", "emacs+local", "vi-insert", "vi-command", "vi-opp", "vi-visual"}).Draw(t, "keymap"),
		Convert: rapid.Bool().Draw(t, "convert")}
	alpha := c03Alphabet(c.Keymap)
	key := rapid.SampledFrom(alpha)
	n := rapid.IntRange(1, 12).Draw(t, "nbinds")
	seen := map[string]bool{}

	add := func(seq []string) bool {
		k := strings.Join(c03Atoms(seq), " ")
		if seen[k] || len(c03Atoms(seq)) > 5 {
			return false
		}

		seen[k] = true
		c.Table = append(c.Table, C03Bind{Seq: seq})

		return true
	}

	for len(c.Table) < n {
		switch {
		case len(c.Table) > 0 && rapid.IntRange(0, 2).Draw(t, "extend") > 0:
			// extend an existing sequence (prefix chain) or make a sibling
			base := c.Table[rapid.IntRange(0, len(c.Table)-1).Draw(t, "base")].Seq

			if len(base) < 4 && rapid.Bool().Draw(t, "chain") {
				if !add(append(append([]string{}, base...), key.Draw(t, "ext"))) {
					n--
				}
			} else {
				sib := append([]string{}, base...)
				sib[len(sib)-1] = key.Draw(t, "sib")

				if !add(sib) {
					n--
				}
			}
		default:
			if !add(rapid.SliceOfN(key, 1, 3).Draw(t, "fresh")) {
				n--
			}
		}

		if n < 1 {
			break
		}
	}

	if len(c.Table) == 0 {
		c.Table = []C03Bind{{Seq: []string{"a"}}}
	}

	// macros: body over the alphabet, never containing its own first key (no
	// self-reference); bodies may trigger other (non-macro) binds
	for i := range c.Table {
		if rapid.IntRange(0, 3).Draw(t, "ismacro") == 0 {
			body := []string{}

			for _, k := range rapid.SliceOfN(key, 1, 4).Draw(t, "body") {
				if k != c.Table[i].Seq[0] && k != "M-a" && k != "ESC" {
					body = append(body, k)
				}
			}

			if len(body) > 0 {
				c.Table[i].Macro = body
			}
		}
	}

	// macro bodies must not start other macros' sequences (depth <= 2 and no cycles):
	// forbid any macro sequence from being reachable inside a body
	for i := range c.Table {
		if c.Table[i].Macro == nil {
			continue
		}

		for j := range c.Table {
			if c.Table[j].Macro != nil && containsSeq(c03Atoms(c.Table[i].Macro), c03Atoms(c.Table[j].Seq)) {
				c.Table[i].Macro = nil
				break
			}
		}
	}

	// input: walk the table
	ni := rapid.IntRange(1, 6).Draw(t, "nchunks")

	for i := 0; i < ni; i++ {
		switch rapid.IntRange(0, 3).Draw(t, "inkind") {
		case 0: // a full bound sequence
			c.Input = append(c.Input, c.Table[rapid.IntRange(0, len(c.Table)-1).Draw(t, "full")].Seq...)
		case 1: // a proper prefix then a (possibly) ruling-out key
			s := c.Table[rapid.IntRange(0, len(c.Table)-1).Draw(t, "pre")].Seq
			c.Input = append(c.Input, s[:rapid.IntRange(0, len(s)-1).Draw(t, "cut")]...)
			c.Input = append(c.Input, key.Draw(t, "ruleout"))
		default:
			c.Input = append(c.Input, key.Draw(t, "rand"))
		}
	}

	if len(c.Input) > 12 {
		c.Input = c.Input[:12]
	}

	return c
}

func containsSeq(hay, needle []string) bool {
	for i := 0; i+len(needle) <= len(hay); i++ {
		if strings.Join(hay[i:i+len(needle)], " ") == strings.Join(needle, " ") {
			return true
		}
	}

	// a body ending in a proper prefix of the needle could also combine with
	// later input: forbid shared first atoms altogether
	for _, a := range hay {
		if len(needle) > 0 && a == needle[0] {
			return true
		}
	}

	return false
}

// ---- reference resolver (appendix A.1)

type c03Emit struct {
	Probe int // index in the table
	At    int // index of the typed atom (in the top-level input) at which it ran; -1 inside a macro
}

type c03Model struct {
	table map[string]int // atoms joined -> bind index
	binds []C03Bind
}

func (m *c03Model) longer(pending []string) bool {
	p := strings.Join(pending, " ") + " "
	for k := range m.table {
		if strings.HasPrefix(k+" ", p) && k != strings.Join(pending, " ") {
			return true
		}
	}

	return false
}

// run returns every emission list the model allows for the atoms.
func (m *c03Model) run(atoms []string) [][]c03Emit {
	type state struct {
		queue   []string // remaining atoms with their source index
		idx     []int
		pending []string
		pidx    []int
		remB    int
		remLen  int
		out     []c03Emit
	}

	results := [][]c03Emit{}
	idx := make([]int, len(atoms))

	for i := range idx {
		idx[i] = i
	}

	var step func(s state)

	step = func(s state) {
		for len(s.queue) > 0 {
			k, ki := s.queue[0], s.idx[0]
			s.queue, s.idx = s.queue[1:], s.idx[1:]
			s.pending = append(append([]string{}, s.pending...), k)
			s.pidx = append(append([]int{}, s.pidx...), ki)

			exact, isExact := m.table[strings.Join(s.pending, " ")]
			longer := m.longer(s.pending)

			emit := func(b int, at int) {
				s.out = append(append([]c03Emit{}, s.out...), c03Emit{Probe: b, At: at})

				if body := m.binds[b].Macro; body != nil {
					ba := c03Atoms(body)
					bi := make([]int, len(ba))

					for i := range bi {
						bi[i] = at
					}

					s.queue = append(append([]string{}, ba...), s.queue...)
					s.idx = append(bi, s.idx...)
				}
			}

			switch {
			case isExact && !longer:
				emit(exact, ki)
				s.pending, s.pidx, s.remB = nil, nil, -1
			case longer:
				if isExact {
					s.remB, s.remLen = exact, len(s.pending)
				}
			default: // ruled out
				if s.remB >= 0 {
					b, l := s.remB, s.remLen
					rest, restIdx := s.pending[l:], s.pidx[l:]
					s.remB = -1
					s.pending, s.pidx = nil, nil

					// branch alpha: drop what followed the remembered match
					a := s
					a.out = append([]c03Emit{}, s.out...)
					a.queue, a.idx = append([]string{}, s.queue...), append([]int{}, s.idx...)

					func() {
						sa := a
						sa.out = append(sa.out, c03Emit{Probe: b, At: ki})

						if body := m.binds[b].Macro; body != nil {
							ba := c03Atoms(body)
							bi := make([]int, len(ba))

							for i := range bi {
								bi[i] = ki
							}

							sa.queue = append(append([]string{}, ba...), sa.queue...)
							sa.idx = append(bi, sa.idx...)
						}

						step(sa)
					}()

					// branch beta: re-dispatch it from an empty state (after the macro body if any)
					sb := s
					sb.out = append(append([]c03Emit{}, s.out...), c03Emit{Probe: b, At: ki})
					q, qi := append([]string{}, rest...), append([]int{}, restIdx...)

					// re-dispatched keys run now at the earliest, not when they were typed
					for i := range qi {
						if qi[i] < ki {
							qi[i] = ki
						}
					}

					if body := m.binds[b].Macro; body != nil {
						ba := c03Atoms(body)
						bi := make([]int, len(ba))

						for i := range bi {
							bi[i] = ki
						}

						q, qi = append(append([]string{}, ba...), q...), append(bi, qi...)
					}

					sb.queue = append(q, s.queue...)
					sb.idx = append(qi, s.idx...)
					step(sb)

					return
				}

				// nothing was remembered: the statement only says that nothing runs
				// for these keys as a sequence. Branch delta: only the first key is
				// given up and the ones after it start over (what the library does
				// when a local keymap hands unmatched keys to the main one); the
				// main line below: all of them are given up.
				if len(s.pending) > 1 {
					sd := s
					sd.out = append([]c03Emit{}, s.out...)
					q, qi := append([]string{}, s.pending[1:]...), append([]int{}, s.pidx[1:]...)

					for i := range qi {
						if qi[i] < ki {
							qi[i] = ki
						}
					}

					sd.queue = append(q, s.queue...)
					sd.idx = append(qi, s.idx...)
					sd.pending, sd.pidx = nil, nil
					step(sd)
				}

				s.pending, s.pidx = nil, nil
			}
		}

		results = append(results, s.out)
	}

	step(state{queue: append([]string{}, atoms...), idx: idx, remB: -1})

	return results
}

// ---- running it

func (c *C03Case) spec(mainKm string) (*proto.Spec, string) {
	vars := [][2]string{{"convert-meta", map[bool]string{true: "on", false: "off"}[c.Convert]}}
	mode := "emacs"

	if c.Keymap != "emacs" && c.Keymap != "emacs+local" {
		mode = "vi"
	}

	bindKm := c.Keymap

	spec := &proto.Spec{Calls: 1, Inputrc: renderVars(mode, vars), Prompt: &proto.PromptSpec{Primary: "> "}}
	enter := ""

	switch c.Keymap {
	case "emacs", "vi-insert":
		spec.ClearKm = []string{c.Keymap}
	case "emacs+local":
		// the table is in emacs; an EMPTY local keymap is active on top of it, so
		// every key falls through to the main keymap
		bindKm = "emacs"
		spec.Probes = append(spec.Probes, proto.ProbeSpec{Name: "enter", Kind: "setlocal:vi-opp"})
		spec.ClearKm = []string{"emacs", "vi-opp"}
		spec.Binds = append(spec.Binds, proto.BindSpec{Keymap: "emacs", Seq: "Z", Action: "enter"})
		// (one bind, ESC Q, Q being outside the alphabet: a local keymap with no bind at all is not consulted, and the completion and search keymaps all have ESC-prefixed binds like this one)
		spec.Probes = append(spec.Probes, proto.ProbeSpec{Name: "local-q", Kind: "log"})
		spec.Binds = append(spec.Binds, proto.BindSpec{Keymap: "vi-opp", Seq: "\x1bQ", Action: "local-q"})
		enter = "Z"
	case "vi-command":
		spec.Probes = append(spec.Probes, proto.ProbeSpec{Name: "enter", Kind: "setmain:vi-command"})
		spec.ClearKm = []string{"vi-command"}
		spec.Binds = append(spec.Binds, proto.BindSpec{Keymap: "vi-insert", Seq: "Z", Action: "enter"})
		enter = "Z"
	default: // local keymaps over an emptied main keymap
		spec.Probes = append(spec.Probes, proto.ProbeSpec{Name: "enter", Kind: "setlocal:" + c.Keymap})
		spec.ClearKm = []string{"vi-insert", c.Keymap}
		spec.Binds = append(spec.Binds, proto.BindSpec{Keymap: "vi-insert", Seq: "Z", Action: "enter"})
		enter = "Z"
	}

	namedLike := map[string]bool{}

	for i, b := range c.Table {
		name := fmt.Sprintf("probe-%d", i)
		seq := ""

		for _, k := range b.Seq {
			_, bound := c03Key(k, c.Convert)
			seq += bound
		}

		if b.Macro != nil {
			body := ""

			for _, k := range b.Macro {
				typed, _ := c03Key(k, c.Convert)
				body += typed
			}

			// a macro bind's action is its body in inputrc notation; the probe of a
			// macro is observed through what its body triggers, plus a marker probe
			spec.Binds = append(spec.Binds, proto.BindSpec{Keymap: bindKm, Seq: seq, Action: inputrcEscape(body), Macro: true})

			// A command whose NAME is the macro's text is registered as well (a
			// quoted command name in an inputrc file is a macro that types the
			// name): it is bound to nothing and must never run.
			if inputrcEscape(body) == body && !namedLike[body] {
				namedLike[body] = true
				spec.Probes = append(spec.Probes, proto.ProbeSpec{Name: body, Kind: "log"})
			}

			continue
		}

		spec.Probes = append(spec.Probes, proto.ProbeSpec{Name: name, Kind: "log"})
		spec.Binds = append(spec.Binds, proto.BindSpec{Keymap: bindKm, Seq: seq, Action: name})
	}

	return spec, enter
}

// inputrcEscape writes bytes in the documented inputrc notation (model's own).
func inputrcEscape(s string) string {
	var sb strings.Builder

	for _, b := range []byte(s) {
		switch {
		case b == '\\' || b == '"':
			sb.WriteString(`\` + string(b))
		case b == 0x1b:
			sb.WriteString(`\e`)
		case b == 0x7f:
			sb.WriteString(`\C-?`)
		case b < 0x20:
			sb.WriteString(`\C-` + string(rune(b|0x60)))
		default:
			sb.WriteByte(b)
		}
	}

	return sb.String()
}

func runC03(h *Harness, child *rig.Child, c *C03Case) (*Failure, bool) {
	model := &c03Model{table: map[string]int{}, binds: c.Table}

	for i, b := range c.Table {
		model.table[strings.Join(c03Atoms(b.Seq), " ")] = i
	}

	atoms := c03Atoms(c.Input)
	allowed := model.run(atoms)

	// what is observable: probes of non-macro binds only
	visible := func(es []c03Emit, withIndex bool) string {
		parts := []string{}

		for _, e := range es {
			if c.Table[e.Probe].Macro != nil {
				continue
			}

			if withIndex {
				parts = append(parts, fmt.Sprintf("probe-%d@%d", e.Probe, e.At))
			} else {
				parts = append(parts, fmt.Sprintf("probe-%d", e.Probe))
			}
		}

		return strings.Join(parts, " ")
	}

	describe := func() string {
		tb := []string{}

		for i, b := range c.Table {
			if b.Macro != nil {
				tb = append(tb, fmt.Sprintf("%v => macro %v", b.Seq, b.Macro))
			} else {
				tb = append(tb, fmt.Sprintf("%v => probe-%d", b.Seq, i))
			}
		}

		return fmt.Sprintf("keymap %s (convert-meta %v), table {%s}, input %v", c.Keymap, c.Convert, strings.Join(tb, "; "), c.Input)
	}

	nontrivial := false

	for k := range model.table {
		for k2 := range model.table {
			if k != k2 && strings.HasPrefix(k2+" ", k+" ") && containsSeq(atoms, strings.Split(k, " ")) {
				nontrivial = true
			}
		}
	}

	for _, b := range c.Table {
		if b.Macro != nil && containsSeq(atoms, c03Atoms(b.Seq)) {
			nontrivial = true
		}
	}

	for pass := 0; pass < 2; pass++ {
		spec, enter := c.spec(c.Keymap)
		d := openDrive(h, child, spec, rig.SessionOpts{Cols: 80, Rows: 24})

		if enter != "" {
			d.send([]byte(enter))
		}

		if d.fail != nil {
			d.close()
			return d.fail, nontrivial
		}

		observed := []string{}   // probe names in order
		observedAt := []string{} // with the index of the atom whose read they followed

		collect := func(atomIdx int) {
			for _, ev := range d.st.Cmds {
				if ev.Ev == "probe" && strings.HasPrefix(ev.Name, "probe-") {
					observed = append(observed, ev.Name)
					observedAt = append(observedAt, fmt.Sprintf("%s@%d", ev.Name, atomIdx))
				} else if ev.Ev == "probe" && ev.Name != "enter" && ev.Name != "local-q" {
					// the unbound command named like a macro's text ran
					observed = append(observed, "unbound-command:"+ev.Name)
					observedAt = append(observedAt, fmt.Sprintf("unbound-command:%s@%d", ev.Name, atomIdx))
				}
			}
		}

		if pass == 0 {
			// one key per read; an atom is one byte here
			ai := 0

			for _, k := range c.Input {
				typed, _ := c03Key(k, c.Convert)

				for _, b := range []byte(typed) {
					if d.send([]byte{b}) == nil {
						break
					}

					collect(ai)
					ai++
				}
			}
		} else {
			var all []byte

			for _, k := range c.Input {
				typed, _ := c03Key(k, c.Convert)
				all = append(all, typed...)
			}

			if d.send(all) != nil {
				collect(-1)
			}
		}

		fail := d.fail
		ended := d.st.Kind != "park"
		d.close()

		if fail != nil {
			return fail, nontrivial
		}

		if ended {
			return failf("ended", "c03:call-ended", "%s: the call ended (%s)", describe(), d.st), nontrivial
		}

		ok := false
		wants := []string{}

		for _, es := range allowed {
			want := visible(es, pass == 0)
			wants = append(wants, "["+want+"]")

			got := strings.Join(observed, " ")
			if pass == 0 {
				got = strings.Join(observedAt, " ")
			}

			if got == want {
				ok = true
			}
		}

		if !ok {
			sort.Strings(wants)
			mode := "one key per read (probe@index of the key after which it ran)"
			got := strings.Join(observedAt, " ")

			if pass == 1 {
				mode = "all keys in one read"
				got = strings.Join(observed, " ")
			}

			sig := "c03:" + c.Keymap
			if pass == 1 {
				sig += ":paste"
			}

			for _, b := range c.Table {
				if b.Macro != nil {
					sig += ":macro"
					break
				}
			}

			return failf("resolver", sig, "%s; %s: probes run [%s], the reference resolver allows %s", describe(), mode, got, strings.Join(uniq(wants), " or ")), true
		}
	}

	return nil, nontrivial
}

func uniq(s []string) []string {
	out := []string{}
	seen := map[string]bool{}

	for _, x := range s {
		if !seen[x] {
			seen[x] = true
			out = append(out, x)
		}
	}

	return out
}

func TestC03(t *testing.T) {
	nt := map[*C03Case]bool{}

	runProp(t, propDef{
		id: "C03", check: "dispatch", rule: c03Rule,
		newCase: func() any { return new(C03Case) },
		gen:     func(rt *rapid.T) any { return genC03(rt) },
		classify: func(h *Harness, x any) bool {
			c := x.(*C03Case)
			v := nt[c]
			delete(nt, c)
			h.class("keymap-" + c.Keymap)

			for _, b := range c.Table {
				if b.Macro != nil {
					h.class("has-macro")
					break
				}
			}

			return v
		},
		run: func(h *Harness, child *rig.Child, x any) *Failure {
			c := x.(*C03Case)
			f, v := runC03(h, child, c)
			nt[c] = v

			return f
		},
	})
}
