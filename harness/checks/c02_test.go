package checks

import (
	"fmt"
	"sort"
	"strings"
	"testing"
	"unicode"
	"unicode/utf8"

	"pgregory.net/rapid"

	"verif/harness/proto"
	"verif/harness/rig"
)

// C02 — what the user types is what Readline returns.

type C02Case struct {
	Text string      `json:"text"`
	Mode string      `json:"mode"` // emacs | vi
	Vars [][2]string `json:"vars"` // meta variable settings, in file order
	Cuts []int       `json:"cuts"` // byte offsets at which the UTF-8 stream is cut into reads
}

const c02Rule = "strings of 0..200 printable runes (ASCII / Latin-1 / BMP incl. CJK wide, Hangul, combining, RTL / astral) typed as UTF-8 under a random chunking (whole, per rune, per byte, random cuts incl. mid-rune) then CR, in emacs and vi-insert, under generated meta-variable settings (all 6 variables free for ASCII text; convert-meta off + input-meta/output-meta on for non-ASCII); oracle: returned line == typed text, err == nil, every intermediate buffer is a prefix of the text; non-trivial = has a non-ASCII rune, or ASCII under a non-default meta setting, or a cut inside a multi-byte rune; distinct = hash of the whole case"

var metaVars = []string{"convert-meta", "input-meta", "output-meta", "enable-meta-key", "meta-flag", "byte-oriented"}

// genPrintableRune draws a printable rune of the class; code points of the
// ranges that are unassigned or not printable are replaced by a fixed printable
// one of the same class, so the domain is exactly "printable".
func genPrintableRune(class int) *rapid.Generator[rune] {
	fallback := []rune{'a', 0xe9, 0x4e00, 0x1f600}

	return rapid.Custom(func(t *rapid.T) rune {
		r := genRuneOfClass(class).Draw(t, "rune")
		if !unicode.IsPrint(r) {
			if class < 0 || class > 3 {
				return fallback[3]
			}

			return fallback[class]
		}

		return r
	})
}

func genRuneOfClass(class int) *rapid.Generator[rune] {
	switch class {
	case 0:
		return rapid.Custom(func(t *rapid.T) rune { return rune(rapid.IntRange(0x20, 0x7e).Draw(t, "ascii")) })
	case 1:
		return rapid.Custom(func(t *rapid.T) rune {
			r := rune(rapid.IntRange(0xa0, 0xff).Draw(t, "latin1"))
			if r == 0xad {
				r = 0xe9
			}

			return r
		})
	case 2:
		return rapid.Custom(func(t *rapid.T) rune {
			ranges := [][2]int{{0x4e00, 0x9fff}, {0xac00, 0xd7a3}, {0x3041, 0x3096}, {0x30a1, 0x30fa}, {0x0391, 0x03a9}, {0x0410, 0x044f},
				{0x05d0, 0x05ea}, {0x0627, 0x063a}, {0xff01, 0xff5e}, {0x2190, 0x21ff}, {0x0100, 0x017f}}
			rg := ranges[rapid.IntRange(0, len(ranges)-1).Draw(t, "bmprange")]

			return rune(rapid.IntRange(rg[0], rg[1]).Draw(t, "bmp"))
		})
	default:
		return rapid.Custom(func(t *rapid.T) rune {
			ranges := [][2]int{{0x1f600, 0x1f64f}, {0x10000, 0x1005d}, {0x20000, 0x2a6df}, {0x1d400, 0x1d454}}
			rg := ranges[rapid.IntRange(0, len(ranges)-1).Draw(t, "astralrange")]

			return rune(rapid.IntRange(rg[0], rg[1]).Draw(t, "astral"))
		})
	}
}

func genC02(t *rapid.T) *C02Case {
	c := &C02Case{Mode: rapid.SampledFrom([]string{"emacs", "vi"}).Draw(t, "mode")}
	ascii := rapid.IntRange(0, 3).Draw(t, "asciiOnly") == 0
	maxLen := 60

	if rapid.IntRange(0, 9).Draw(t, "long") == 0 {
		maxLen = 200
	}

	piece := rapid.Custom(func(t *rapid.T) string {
		class := 0
		if !ascii {
			class = rapid.SampledFrom([]int{0, 0, 1, 2, 2, 3}).Draw(t, "class")
		}

		s := string(genPrintableRune(class).Draw(t, "r"))
		if class == 2 && rapid.IntRange(0, 5).Draw(t, "comb") == 0 {
			s += string(rune(rapid.IntRange(0x300, 0x36f).Draw(t, "mark")))
		}

		return s
	})

	var sb strings.Builder
	for _, p := range rapid.SliceOfN(piece, 0, maxLen).Draw(t, "text") {
		sb.WriteString(p)
	}

	c.Text = sb.String()
	isASCII := true

	for _, r := range c.Text {
		if r >= 0x80 {
			isASCII = false
		}
	}

	if isASCII {
		// ASCII must hold under every setting.
		for _, v := range metaVars {
			switch rapid.IntRange(0, 2).Draw(t, v) {
			case 1:
				c.Vars = append(c.Vars, [2]string{v, "on"})
			case 2:
				c.Vars = append(c.Vars, [2]string{v, "off"})
			}
		}
	} else {
		c.Vars = append(c.Vars, [2]string{"convert-meta", "off"}, [2]string{"input-meta", "on"}, [2]string{"output-meta", "on"})

		for _, v := range metaVars[3:] {
			switch rapid.IntRange(0, 2).Draw(t, v) {
			case 1:
				c.Vars = append(c.Vars, [2]string{v, "on"})
			case 2:
				c.Vars = append(c.Vars, [2]string{v, "off"})
			}
		}
	}

	// variables that only change how things are shown: typed text must come
	// back the same under any of them
	c.Vars = append(c.Vars, genDisplayVars(t)...)

	// chunking
	nb := len(c.Text)

	switch rapid.IntRange(0, 4).Draw(t, "chunking") {
	case 0: // whole
	case 1: // per rune
		off := 0
		for _, r := range c.Text {
			off += utf8.RuneLen(r)
			if off < nb {
				c.Cuts = append(c.Cuts, off)
			}
		}
	case 2: // per byte (bounded)
		if nb <= 80 {
			for i := 1; i < nb; i++ {
				c.Cuts = append(c.Cuts, i)
			}
		} else {
			for i := 1; i < 80; i++ {
				c.Cuts = append(c.Cuts, i)
			}
		}
	default: // random cuts
		if nb > 1 {
			k := rapid.IntRange(1, 6).Draw(t, "ncuts")
			set := map[int]bool{}

			for i := 0; i < k; i++ {
				set[rapid.IntRange(1, nb-1).Draw(t, "cut")] = true
			}

			for o := range set {
				c.Cuts = append(c.Cuts, o)
			}

			sort.Ints(c.Cuts)
		}
	}

	return c
}

func (c *C02Case) nontrivial() (bool, bool, bool) {
	nonASCII := false

	for _, r := range c.Text {
		if r >= 0x80 {
			nonASCII = true
		}
	}

	midRune := false

	for _, o := range c.Cuts {
		if o < len(c.Text) && !utf8.RuneStart(c.Text[o]) {
			midRune = true
		}
	}

	return nonASCII, !nonASCII && len(c.Vars) > 0 && c.Text != "", midRune
}

func (c *C02Case) inputrc() string {
	var sb strings.Builder
	sb.WriteString(baseInputrc)

	if c.Mode == "vi" {
		sb.WriteString("set editing-mode vi\n")
	}

	for _, v := range c.Vars {
		fmt.Fprintf(&sb, "set %s %s\n", v[0], v[1])
	}

	return sb.String()
}

func runC02(h *Harness, child *rig.Child, c *C02Case) *Failure {
	spec := &proto.Spec{Calls: 1, Inputrc: c.inputrc(), Prompt: &proto.PromptSpec{Primary: "> "}}
	s, st := child.Start(spec, rig.SessionOpts{Cols: 100, Rows: 30})

	defer func() {
		h.Sessions++
		h.Keys += s.Keys
		s.Finish()
	}()

	if f := stopFailure(st); f != nil {
		return f
	}

	if st.Kind != "park" {
		return failf("start", "c02:nostart", "session did not reach its first park: %s", st)
	}

	wantMain := "emacs"
	if c.Mode == "vi" {
		wantMain = "vi-insert"
	}

	if st.Ev.Main != wantMain {
		return &Failure{Clause: "infra", Msg: "unexpected main keymap " + st.Ev.Main, Infra: true}
	}

	data := []byte(c.Text)
	prev := 0
	cuts := append(append([]int{}, c.Cuts...), len(data))

	for _, o := range cuts {
		if o <= prev || o > len(data) {
			continue
		}

		st = s.Send(data[prev:o])
		prev = o

		if f := stopFailure(st); f != nil {
			return f
		}

		if st.Kind != "park" {
			return failf("early-return", "c02:earlyreturn", "call ended while typing printable text: %s", st)
		}

		if st.Ev.Kind == "main" && !strings.HasPrefix(c.Text, st.Ev.Line) {
			return failf("prefix", c02sig(c, st.Ev.Line), "after typing %q the buffer is %q, not a prefix of the typed text", string(data[:o]), st.Ev.Line)
		}
	}

	st = s.Send([]byte("\r"))
	if f := stopFailure(st); f != nil {
		return f
	}

	if st.Kind != "return" {
		return failf("accept", "c02:noaccept", "CR did not return the line: %s", st)
	}

	if st.Ev.HasErr {
		return failf("err", "c02:err", "returned error %q", st.Ev.Err)
	}

	if st.Ev.Line != c.Text {
		return failf("identity", c02sig(c, st.Ev.Line), "typed %q, returned %q", c.Text, st.Ev.Line)
	}

	return nil
}

// c02sig names the mechanism of an identity failure: which class of rune is
// the first one lost or changed, and the meta settings in force.
func c02sig(c *C02Case, got string) string {
	want := []rune(c.Text)
	g := []rune(got)
	i := 0

	for i < len(want) && i < len(g) && want[i] == g[i] {
		i++
	}

	cls := "end"

	if i < len(want) {
		r := want[i]

		switch {
		case r < 0x80:
			cls = fmt.Sprintf("ascii(%q)", r)
		case r <= 0xff:
			cls = "latin1"
		case r <= 0xffff:
			cls = "bmp"
		default:
			cls = "astral"
		}
	}

	return "c02:identity:" + cls
}

func TestC02(t *testing.T) {
	runProp(t, propDef{
		id: "C02", check: "typed", rule: c02Rule,
		newCase: func() any { return new(C02Case) },
		gen:     func(rt *rapid.T) any { return genC02(rt) },
		classify: func(h *Harness, x any) bool {
			c := x.(*C02Case)
			nonASCII, asciiMeta, mid := c.nontrivial()

			if nonASCII {
				h.class("non-ascii")
			}

			if asciiMeta {
				h.class("ascii-under-meta-setting")
			}

			if mid {
				h.class("cut-inside-rune")
			}

			if c.Mode == "vi" {
				h.class("vi-insert")
			}

			return nonASCII || asciiMeta || mid
		},
		run: func(h *Harness, child *rig.Child, x any) *Failure { return runC02(h, child, x.(*C02Case)) },
	})
}
