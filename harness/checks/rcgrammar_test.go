package checks

import (
	"fmt"
	"strings"

	"pgregory.net/rapid"
)

// Grammar of well-formed inputrc programs (C13, and the base for C12's
// mutations). The AST is what the reference evaluator walks; the text given to
// the parser is rendered from the same AST.

type RcNode struct {
	Kind string `json:"k"` // if | set | keymap | bindname | bindseq | macro | comment | blank | include

	Cond    string   `json:"cond,omitempty"` // if: "mode=vi", "term=xterm", or an application name (any case)
	Then    []RcNode `json:"then,omitempty"`
	Else    []RcNode `json:"else,omitempty"`
	HasElse bool     `json:"haselse,omitempty"`

	Name  string `json:"name,omitempty"`  // set: variable ; include: file
	Value string `json:"value,omitempty"` // set: value ; keymap: name
	VType string `json:"vtype,omitempty"` // bool | int | string

	Key    []RcKey `json:"key,omitempty"`    // bindseq / macro: the sequence, token by token
	KeyNm  string  `json:"keynm,omitempty"`  // bindname: the key name as written (e.g. Control-a)
	Action string  `json:"action,omitempty"` // function name
	Body   []RcKey `json:"body,omitempty"`   // macro body tokens

	Indent string `json:"indent,omitempty"`
	Text   string `json:"text,omitempty"` // comment text
}

// RcKey is one token of key notation: how it is written and what it means.
type RcKey struct {
	Text  string `json:"t"` // notation as written inside the quotes
	Runes []rune `json:"r"` // decoded meaning by the documented notation (model's own table)
}

type RcProgram struct {
	Main  []RcNode            `json:"main"`
	Files map[string][]RcNode `json:"files,omitempty"`
	Mode  string              `json:"mode"`
	Term  string              `json:"term"`
	App   string              `json:"app"`
}

var (
	rcModes   = []string{"emacs", "vi"}
	rcTerms   = []string{"xterm", "vt100", "screen"}
	rcApps    = []string{"bash", "gdb", "myapp"}
	rcKeymaps = []string{"emacs", "emacs-standard", "emacs-meta", "emacs-ctlx", "vi", "vi-move", "vi-command", "vi-insert"}
	rcFuncs   = []string{"beginning-of-line", "end-of-line", "kill-word", "self-insert", "vi-movement-mode", "backward-char",
		"history-search-backward", "menu-complete", "undo", "yank", "accept-line", "abort", "transpose-chars", "upcase-word"}
	rcBoolVars = []string{"blink-matching-paren", "completion-ignore-case", "convert-meta", "show-all-if-ambiguous", "mark-directories",
		"enable-bracketed-paste", "input-meta", "output-meta", "revert-all-at-newline", "autopairs"}
	rcIntVars = []string{"completion-query-items", "history-size", "keyseq-timeout", "completion-display-width"}
	rcStrVars = []string{"bell-style", "comment-begin", "emacs-mode-string", "vi-cmd-mode-string", "isearch-terminators-x"}
	rcStrVals = []string{"none", "visible", "audible", "#", "//", "@", "(cmd)", "abc", "x-y_z"}
)

func mixCase(t *rapid.T, s string) string {
	switch rapid.IntRange(0, 3).Draw(t, "case") {
	case 0:
		return s
	case 1:
		return strings.ToUpper(s)
	case 2:
		return strings.ToUpper(s[:1]) + s[1:]
	default:
		var sb strings.Builder

		for i, c := range s {
			if i%2 == 0 {
				sb.WriteString(strings.ToUpper(string(c)))
			} else {
				sb.WriteRune(c)
			}
		}

		return sb.String()
	}
}

func ctrl(c rune) rune {
	if c >= 'a' && c <= 'z' {
		c -= 32
	}

	return c & 0x1f
}

// genRcKey draws one key-notation token (appendix A.5 of DESIGN.md).
func genRcKey(t *rapid.T) RcKey {
	letters := "abcdefghijklmnopqrstuvwxyzABCDEFGHIJKLMNOPQRSTUVWXYZ"

	switch rapid.IntRange(0, 11).Draw(t, "keykind") {
	case 0, 1, 2: // printable literal (no quote, no backslash)
		pool := "abcxyzABCXYZ0123456789 !#$%&()*+,-./:;<=>?@[]^_`{|}~"
		c := rune(pool[rapid.IntRange(0, len(pool)-1).Draw(t, "lit")])

		return RcKey{Text: string(c), Runes: []rune{c}}
	case 3, 4: // \C-x
		pool := letters + "@[]^_"
		c := rune(pool[rapid.IntRange(0, len(pool)-1).Draw(t, "cx")])

		return RcKey{Text: `\C-` + string(c), Runes: []rune{ctrl(c)}}
	case 5: // \C-?
		return RcKey{Text: `\C-?`, Runes: []rune{0x7f}}
	case 6: // \M-x
		pool := letters + "0123456789<>.,"
		c := rune(pool[rapid.IntRange(0, len(pool)-1).Draw(t, "mx")])

		return RcKey{Text: `\M-` + string(c), Runes: []rune{0x80 | c}}
	case 7: // \e
		return RcKey{Text: `\e`, Runes: []rune{0x1b}}
	case 8: // escaped literal / C escapes
		pairs := []struct {
			t string
			r rune
		}{{`\\`, '\\'}, {`\"`, '"'}, {`\'`, '\''}, {`\a`, 7}, {`\b`, 8}, {`\d`, 0x7f}, {`\f`, 12}, {`\n`, 10}, {`\r`, 13}, {`\t`, 9}, {`\v`, 11}}
		p := pairs[rapid.IntRange(0, len(pairs)-1).Draw(t, "esc")]

		return RcKey{Text: p.t, Runes: []rune{p.r}}
	case 9: // \nnn octal (1..0177)
		v := rapid.IntRange(1, 0o177).Draw(t, "oct")
		return RcKey{Text: fmt.Sprintf(`\%03o`, v), Runes: []rune{rune(v)}}
	case 10: // \xHH (01..7f)
		v := rapid.IntRange(1, 0x7f).Draw(t, "hex")
		f := `\x%02x`

		if rapid.Bool().Draw(t, "hexupper") {
			f = `\x%02X`
		}

		return RcKey{Text: fmt.Sprintf(f, v), Runes: []rune{rune(v)}}
	default: // \M-\C-x / \C-\M-x
		c := rune(letters[rapid.IntRange(0, len(letters)-1).Draw(t, "mcx")])
		if rapid.Bool().Draw(t, "mcorder") {
			return RcKey{Text: `\M-\C-` + string(c), Runes: []rune{0x1b, ctrl(c)}}
		}

		return RcKey{Text: `\C-\M-` + string(c), Runes: []rune{0x1b, ctrl(c)}}
	}
}

func genRcSeq(t *rapid.T, min, max int) []RcKey {
	n := rapid.IntRange(min, max).Draw(t, "seqlen")
	out := make([]RcKey, 0, n)

	for i := 0; i < n; i++ {
		k := genRcKey(t)
		// An octal/hex escape followed by a digit would read differently: keep
		// the notation unambiguous by construction.
		if len(out) > 0 {
			prev := out[len(out)-1].Text
			if (strings.HasPrefix(prev, `\x`) || (len(prev) == 4 && prev[0] == '\\' && prev[1] >= '0' && prev[1] <= '7')) && len(k.Text) == 1 {
				c := k.Text[0]
				if (c >= '0' && c <= '9') || (c >= 'a' && c <= 'f') || (c >= 'A' && c <= 'F') {
					k = RcKey{Text: `\e`, Runes: []rune{0x1b}}
				}
			}
		}

		out = append(out, k)
	}

	return out
}

// key names: written form and meaning
func genRcKeyName(t *rapid.T) (string, []rune) {
	specials := []struct {
		n string
		r rune
	}{{"DEL", 0x7f}, {"RUBOUT", 0x7f}, {"ESC", 0x1b}, {"ESCAPE", 0x1b}, {"LFD", 10}, {"NEWLINE", 10}, {"RET", 13}, {"RETURN", 13},
		{"SPACE", 32}, {"SPC", 32}, {"TAB", 9}}
	letters := "abcdefghijklmnopqrstuvwxyz"

	var base string

	var r rune

	mod := rapid.IntRange(0, 4).Draw(t, "mod")

	if rapid.IntRange(0, 3).Draw(t, "special") == 0 {
		s := specials[rapid.IntRange(0, len(specials)-1).Draw(t, "sp")]
		base, r = mixCase(t, s.n), s.r
	} else {
		r = rune(letters[rapid.IntRange(0, len(letters)-1).Draw(t, "kl")])
		base = string(r)

		// Upper-case letters only under Control, where case is documented not to
		// matter; what a bare or Meta-prefixed capital means differs between
		// readline implementations and is left out.
		if mod != 0 && mod != 2 && rapid.Bool().Draw(t, "upper") {
			base = strings.ToUpper(base)
		}
	}

	switch mod {
	case 0: // bare key
		return base, []rune{r}
	case 1:
		return rapid.SampledFrom([]string{"Control-", "C-", "control-", "CTRL-"}).Draw(t, "cp") + base, []rune{ctrl(r)}
	case 2:
		return rapid.SampledFrom([]string{"Meta-", "M-", "meta-"}).Draw(t, "mp") + base, []rune{0x80 | r}
	case 3:
		return rapid.SampledFrom([]string{"Control-Meta-", "C-M-", "Meta-Control-", "M-C-"}).Draw(t, "cmp") + base, []rune{0x1b, ctrl(r)}
	default:
		return rapid.SampledFrom([]string{"Control-", "C-"}).Draw(t, "cp2") + base, []rune{ctrl(r)}
	}
}

type rcGenCtx struct {
	prog   *RcProgram
	depth  int
	inFile bool
	nfiles int
}

func genRcCond(t *rapid.T, p *RcProgram) string {
	switch rapid.IntRange(0, 2).Draw(t, "condkind") {
	case 0:
		// true in about half the cases
		if rapid.Bool().Draw(t, "condtrue") {
			return "mode=" + p.Mode
		}

		return "mode=" + rapid.SampledFrom(rcModes).Draw(t, "condmode")
	case 1:
		if rapid.Bool().Draw(t, "condtrue") {
			return "term=" + p.Term
		}

		return "term=" + rapid.SampledFrom(rcTerms).Draw(t, "condterm")
	default:
		if rapid.Bool().Draw(t, "condtrue") {
			return mixCase(t, p.App)
		}

		return mixCase(t, rapid.SampledFrom(rcApps).Draw(t, "condapp"))
	}
}

func genRcNodes(t *rapid.T, ctx *rcGenCtx, min, max int) []RcNode {
	n := rapid.IntRange(min, max).Draw(t, "nnodes")
	out := []RcNode{}

	for i := 0; i < n; i++ {
		out = append(out, genRcNode(t, ctx)...)
	}

	return out
}

func genRcNode(t *rapid.T, ctx *rcGenCtx) []RcNode {
	indent := rapid.SampledFrom([]string{"", "", "  ", "\t", "    "}).Draw(t, "indent")
	kinds := []string{"if", "if", "set", "set", "keymap", "bindname", "bindseq", "bindseq", "macro", "comment", "blank"}

	if ctx.depth >= 5 {
		kinds = kinds[2:]
	}

	if !ctx.inFile && ctx.nfiles < 2 && ctx.depth < 3 {
		kinds = append(kinds, "include")
	}

	kind := rapid.SampledFrom(kinds).Draw(t, "kind")

	switch kind {
	case "if":
		nd := RcNode{Kind: "if", Indent: indent, Cond: genRcCond(t, ctx.prog)}
		ctx.depth++
		nd.Then = genRcNodes(t, ctx, 0, 4)

		if rapid.Bool().Draw(t, "haselse") {
			nd.HasElse = true
			nd.Else = genRcNodes(t, ctx, 0, 3)
		}

		ctx.depth--

		return []RcNode{nd}
	case "set":
		nd := RcNode{Kind: "set", Indent: indent}

		switch rapid.IntRange(0, 3).Draw(t, "vtype") {
		case 0, 1:
			nd.VType = "bool"
			nd.Name = rapid.SampledFrom(rcBoolVars).Draw(t, "bvar")
			nd.Value = rapid.SampledFrom([]string{"on", "off", "On", "Off", "ON", "OFF"}).Draw(t, "bval")
		case 2:
			nd.VType = "int"
			nd.Name = rapid.SampledFrom(rcIntVars).Draw(t, "ivar")
			nd.Value = fmt.Sprint(rapid.IntRange(-1, 1000).Draw(t, "ival"))
		default:
			if rapid.IntRange(0, 3).Draw(t, "editmode") == 0 {
				nd.VType = "string"
				nd.Name = "editing-mode"
				nd.Value = rapid.SampledFrom(rcModes).Draw(t, "emval")
			} else {
				nd.VType = "string"
				nd.Name = rapid.SampledFrom(rcStrVars).Draw(t, "svar")
				nd.Value = rapid.SampledFrom(rcStrVals).Draw(t, "sval")
			}
		}

		return []RcNode{nd}
	case "keymap":
		return []RcNode{{Kind: "keymap", Indent: indent, Value: rapid.SampledFrom(rcKeymaps).Draw(t, "km")}}
	case "bindname":
		name, runes := genRcKeyName(t)
		return []RcNode{{Kind: "bindname", Indent: indent, KeyNm: name, Key: []RcKey{{Text: name, Runes: runes}},
			Action: rapid.SampledFrom(rcFuncs).Draw(t, "fn")}}
	case "bindseq":
		return []RcNode{{Kind: "bindseq", Indent: indent, Key: genRcSeq(t, 1, 4), Action: rapid.SampledFrom(rcFuncs).Draw(t, "fn")}}
	case "macro":
		return []RcNode{{Kind: "macro", Indent: indent, Key: genRcSeq(t, 1, 3), Body: genRcSeq(t, 1, 8)}}
	case "comment":
		return []RcNode{{Kind: "comment", Indent: indent, Text: rapid.SampledFrom([]string{"# comment", "#$if mode=vi", "# set keymap vi", "#\"x\": abort", "#"}).Draw(t, "ctext")}}
	case "include":
		ctx.nfiles++
		name := fmt.Sprintf("inc%d.rc", ctx.nfiles)
		sub := &rcGenCtx{prog: ctx.prog, depth: 0, inFile: true}
		// Which keymap an included file starts in and leaves behind is not stated
		// anywhere: the file sets its own first, the includer re-issues its own after.
		body := []RcNode{{Kind: "keymap", Value: rapid.SampledFrom(rcKeymaps).Draw(t, "inckm")}}
		body = append(body, genRcNodes(t, sub, 0, 5)...)
		ctx.prog.Files[name] = body

		return []RcNode{{Kind: "include", Indent: indent, Name: name},
			{Kind: "keymap", Indent: indent, Value: rapid.SampledFrom(rcKeymaps).Draw(t, "afterinc")}}
	default:
		return []RcNode{{Kind: "blank", Indent: rapid.SampledFrom([]string{"", " ", "\t"}).Draw(t, "bl")}}
	}
}

func genRcProgram(t *rapid.T) *RcProgram {
	p := &RcProgram{Files: map[string][]RcNode{},
		Mode: rapid.SampledFrom(rcModes).Draw(t, "mode"),
		Term: rapid.SampledFrom(rcTerms).Draw(t, "term"),
		App:  rapid.SampledFrom(rcApps).Draw(t, "app")}
	ctx := &rcGenCtx{prog: p}
	p.Main = genRcNodes(t, ctx, 1, 10)

	return p
}

func renderKeys(ks []RcKey) string {
	var sb strings.Builder
	for _, k := range ks {
		sb.WriteString(k.Text)
	}

	return sb.String()
}

func renderRc(nodes []RcNode, sb *strings.Builder) {
	for _, n := range nodes {
		sb.WriteString(n.Indent)

		switch n.Kind {
		case "if":
			sb.WriteString("$if " + n.Cond + "\n")
			renderRc(n.Then, sb)

			if n.HasElse {
				sb.WriteString(n.Indent + "$else\n")
				renderRc(n.Else, sb)
			}

			sb.WriteString(n.Indent + "$endif\n")
		case "set":
			sb.WriteString("set " + n.Name + " " + n.Value + "\n")
		case "keymap":
			sb.WriteString("set keymap " + n.Value + "\n")
		case "bindname":
			sb.WriteString(n.KeyNm + ": " + n.Action + "\n")
		case "bindseq":
			sb.WriteString(`"` + renderKeys(n.Key) + `": ` + n.Action + "\n")
		case "macro":
			sb.WriteString(`"` + renderKeys(n.Key) + `": "` + renderKeys(n.Body) + "\"\n")
		case "comment":
			sb.WriteString(n.Text + "\n")
		case "include":
			sb.WriteString("$include " + n.Name + "\n")
		default:
			sb.WriteString("\n")
		}
	}
}

func (p *RcProgram) text(nodes []RcNode) string {
	var sb strings.Builder
	renderRc(nodes, &sb)

	return sb.String()
}

// ---------------------------------------------------------------------------
// reference evaluator (appendix A.4)

type rcBind struct {
	Action string
	Macro  bool
}

type rcResult struct {
	Binds map[string]map[string]rcBind // keymap -> normalised sequence -> bind
	Vars  map[string]any
}

// normSeq applies the one equivalence the library documents: Meta-x == ESC x.
func normSeq(s []rune) string {
	out := make([]rune, 0, len(s))

	for _, r := range s {
		if r >= 0x80 && r <= 0xff {
			out = append(out, 0x1b, r&0x7f)
		} else {
			out = append(out, r)
		}
	}

	return string(out)
}

func keysRunes(ks []RcKey) []rune {
	var out []rune
	for _, k := range ks {
		out = append(out, k.Runes...)
	}

	return out
}

type rcEvalStats struct {
	activeUnderInactive bool // an $if whose own condition holds but an ancestor is inactive
	elseUnderInactive   bool
	keymapInCond        bool
	maxDepth            int
}

func (p *RcProgram) condTrue(c string) bool {
	switch {
	case strings.HasPrefix(c, "mode="):
		return strings.TrimPrefix(c, "mode=") == p.Mode
	case strings.HasPrefix(c, "term="):
		return strings.TrimPrefix(c, "term=") == p.Term
	default:
		return strings.ToLower(c) == p.App
	}
}

func (p *RcProgram) evalNodes(nodes []RcNode, active bool, km *string, res *rcResult, st *rcEvalStats, depth int) {
	if depth > st.maxDepth {
		st.maxDepth = depth
	}

	for _, n := range nodes {
		switch n.Kind {
		case "if":
			c := p.condTrue(n.Cond)

			if c && !active {
				st.activeUnderInactive = true
			}

			if n.HasElse && !active {
				st.elseUnderInactive = true
			}

			p.evalNodes(n.Then, active && c, km, res, st, depth+1)

			if n.HasElse {
				p.evalNodes(n.Else, active && !c, km, res, st, depth+1)
			}
		case "include":
			if active {
				sub := "emacs"
				p.evalNodes(p.Files[n.Name], true, &sub, res, st, 0)
			}
		case "keymap":
			if depth > 0 {
				st.keymapInCond = true
			}

			if active {
				*km = n.Value
			}
		case "set":
			if !active {
				continue
			}

			switch n.VType {
			case "bool":
				res.Vars[n.Name] = strings.ToLower(n.Value) == "on"
			case "int":
				v := 0
				fmt.Sscanf(n.Value, "%d", &v)
				res.Vars[n.Name] = v
			default:
				res.Vars[n.Name] = n.Value
			}
		case "bindname", "bindseq", "macro":
			if !active {
				continue
			}

			if res.Binds[*km] == nil {
				res.Binds[*km] = map[string]rcBind{}
			}

			b := rcBind{Action: n.Action}
			if n.Kind == "macro" {
				b = rcBind{Action: normSeq(keysRunes(n.Body)), Macro: true}
			}

			res.Binds[*km][normSeq(keysRunes(n.Key))] = b
		}
	}
}

func (p *RcProgram) eval() (*rcResult, *rcEvalStats) {
	res := &rcResult{Binds: map[string]map[string]rcBind{}, Vars: map[string]any{}}
	st := &rcEvalStats{}
	km := "emacs"
	p.evalNodes(p.Main, true, &km, res, st, 0)

	return res, st
}

// evalLeaky is NOT the specification: it is the mechanism of the known finding
// "nested-if-leak" written down (a directive is applied when the innermost
// $if/$else alone is active, whatever the enclosing blocks say). It is only used
// to recognise that finding precisely, so that any other deviation from the
// reference evaluator is still reported.
func (p *RcProgram) evalLeaky() *rcResult {
	res := &rcResult{Binds: map[string]map[string]rcBind{}, Vars: map[string]any{}}
	st := &rcEvalStats{}
	km := "emacs"

	var walk func(nodes []RcNode, active bool, km *string)

	walk = func(nodes []RcNode, active bool, km *string) {
		for _, n := range nodes {
			switch n.Kind {
			case "if":
				c := p.condTrue(n.Cond)
				walk(n.Then, c, km)

				if n.HasElse {
					walk(n.Else, !c, km)
				}
			case "include":
				if active {
					sub := "emacs"
					walk(p.Files[n.Name], true, &sub)
				}
			default:
				p.evalNodes([]RcNode{n}, active, km, res, st, 0)
			}
		}
	}

	walk(p.Main, true, &km)

	return res
}
