package checks

import (
	"bytes"
	"fmt"
	"strings"
	"testing"

	"pgregory.net/rapid"

	"verif/harness/proto"
	"verif/harness/rig"
)

// C12 — parsing any inputrc text terminates without crashing. The parse runs
// in the child process (a stack overflow is fatal, a loop needs a watchdog).

const c12Rule = "inputrc texts = grammar-derived programs (C13 grammar) mutated by generated edits (truncate a line at any rune, delete/duplicate a token or line, splice hostile fragments: unterminated quotes, lone backslash, lone modifiers, set with 0/1/many arguments, unbalanced $if/$else/$endif, NUL/control bytes, invalid UTF-8, CR endings, lines of 64 KiB..1 MiB, $if nesting to 2000; sweeps of one unfinished construct over 34 consecutive lengths) or raw bytes; x options (halt-on-error, strict, app/term/mode/name, NewConfig/NewDefaultConfig handlers, ParseBytes/Parse/ParseFile); x include graphs served by the handler (self-inclusion, 2- and 3-cycles, chains to depth 10000, ~/ paths, missing files, read errors); oracle: the call returns nil or an error within the watchdog, child alive, no panic; non-trivial = a directive the parser acts on plus >= 1 malformed construct, or an include cycle/chain; distinct = hash of the case"

type C12Case struct {
	Spec   proto.ParseSpec `json:"spec"`
	Muts   int             `json:"muts"`
	Shape  string          `json:"shape"` // grammar | raw | include | huge | deepif
	Cyclic bool            `json:"cyclic,omitempty"`
}

var hostile = []string{
	"set", "set ", "set foo", "set foo ", `set foo "`, `set foo "bar`, `set foo 'bar`, "set foo bar baz qux", "set keymap", "set keymap nosuch",
	"set editing-mode", "set editing-mode foo", "set history-size abc", "set history-size 99999999999999999999", "set history-size -",
	`"`, `"\`, `"abc`, `"abc"`, `"abc":`, `"abc": "`, `"abc": "def`, `"abc": 'def`, `'abc': x`, `"": abort`, `"\C-`, `"\M-`, `"\C-\M-`, `"\M-\C-`,
	`"\x`, `"\x1`, `"\1`, `"\C-": abort`, `"\M-": abort`, `"\C-\M-": abort`, `"\e\`, `"\\`, `"\"`,
	"Control-", "Control-:", "M-", "C-M-", "Meta-Control-", "Meta-Control-: abort", "Foo-a: abort", "Control-Meta-Foo-a: abort", "---: abort", "-: abort",
	":", ": foo", "a:", "a: ", "a : abort", "abort", "\\", "\\:", "#", "$", "$if", "$if ", "$if mode=", "$if term=", "$if =", "$else", "$endif", "$endif extra",
	"$include", "$include ", "$include ~/", "$include ~/x", "$include ~", "$include /nonexistent/file", "$include self.rc", "$foo", "$foo bar", "$if mode=vi extra tokens",
	"\x00", "a\x00b: abort", "set \x00 on", "\xff\xfe", "\"\xff\": abort", "set foo \xc3", "\r", "set foo on\r", "\"a\": abort\r", "\t", " \t ", "\x1b[A: abort", " ", "set foo  ",
}

func genC12(t *rapid.T) *C12Case {
	c := &C12Case{}
	c.Spec.HaltOnErr = rapid.Bool().Draw(t, "halt")
	c.Spec.Strict = rapid.Bool().Draw(t, "strict")
	c.Spec.App = rapid.SampledFrom([]string{"", "bash", "Bash", "x y"}).Draw(t, "app")
	c.Spec.Term = rapid.SampledFrom([]string{"", "xterm", "xterm-256color"}).Draw(t, "term")
	c.Spec.Mode = rapid.SampledFrom([]string{"", "emacs", "vi", "nosuch"}).Draw(t, "mode")
	c.Spec.Name = rapid.SampledFrom([]string{"", "main.rc", "self.rc"}).Draw(t, "name")
	c.Spec.Handler = rapid.SampledFrom([]string{"config", "default"}).Draw(t, "handler")
	c.Spec.API = rapid.SampledFrom([]string{"bytes", "bytes", "reader", "file"}).Draw(t, "api")

	shape := rapid.SampledFrom([]string{"grammar", "grammar", "grammar", "grammar", "raw", "include", "include", "huge", "deepif", "lengths"}).Draw(t, "shape")
	c.Shape = shape

	switch shape {
	case "lengths":
		// one unfinished construct (open quote, trailing backslashes, cut escape)
		// at EVERY length in a window: a slip that only shows when the line's
		// length meets some capacity or boundary is met by one of them
		head := rapid.SampledFrom([]string{`set a "`, `set a '`, `set a `, `"`, `"x": "`, `"x": '`, `"\C-`, `$if "`, `$include "`, `Control-`, `"\e`, ``}).Draw(t, "lhead")
		unit := rapid.SampledFrom([]string{"a", "a", "é", "日", " ", `\\`, `\"`}).Draw(t, "lunit")
		tail := rapid.SampledFrom([]string{`\`, `\`, `\\\`, ``, `"`, `\"`, `\C-`, `\M-\`, `\x`}).Draw(t, "ltail")
		from := rapid.IntRange(0, 70).Draw(t, "lfrom")

		var sb strings.Builder

		for n := from; n < from+34; n++ {
			sb.WriteString(head + strings.Repeat(unit, n) + tail + "\n")
		}

		c.Spec.HaltOnErr = false
		c.Spec.Text = []byte(sb.String())
		c.Muts = 1
	case "raw":
		c.Spec.Text = rapid.SliceOfN(rapid.Byte(), 0, 300).Draw(t, "raw")
		c.Muts = 1
	case "huge":
		n := rapid.SampledFrom([]int{65535, 65536, 65537, 70000, 200000, 1 << 20}).Draw(t, "hugelen")
		kind := rapid.IntRange(0, 3).Draw(t, "hugekind")

		var line []byte

		switch kind {
		case 0:
			line = append([]byte(`"`), bytes.Repeat([]byte("a"), n)...)
			line = append(line, []byte(`": abort`)...)
		case 1:
			line = append([]byte("set foo "), bytes.Repeat([]byte("x"), n)...)
		case 2:
			line = bytes.Repeat([]byte(`\C-`), n/3)
			line = append(append([]byte(`"`), line...), '"', ':', ' ', 'a')
		default:
			line = bytes.Repeat([]byte("Control-"), n/8)
		}

		c.Spec.Text = append(append([]byte("set a on\n"), line...), []byte("\nset b on\n")...)
		c.Muts = 1
	case "deepif":
		depth := rapid.SampledFrom([]int{10, 100, 2000}).Draw(t, "depth")
		closeN := rapid.SampledFrom([]int{0, depth - 1, depth, depth + 1}).Draw(t, "closeN")

		var sb strings.Builder

		for i := 0; i < depth; i++ {
			sb.WriteString(rapid.SampledFrom([]string{"$if mode=emacs\n", "$if term=x\n", "$if Bash\n", "$else\n"}).Draw(t, "ifline"))
		}

		sb.WriteString("set inner on\n\"x\": abort\n")

		for i := 0; i < closeN; i++ {
			sb.WriteString("$endif\n")
		}

		c.Spec.Text = []byte(sb.String())
		c.Muts = 1
	case "include":
		c.Spec.Files = map[string][]byte{}
		c.Spec.ReadErr = map[string]string{}

		switch rapid.IntRange(0, 6).Draw(t, "graph") {
		case 6: // a file that includes itself several times (exponential without cycle detection)
			k := rapid.IntRange(2, 4).Draw(t, "selfn")
			c.Spec.Files["m.rc"] = []byte(strings.Repeat("$include m.rc\n", k) + "set a on\n")
			c.Spec.Text = []byte("$include m.rc\n")
			c.Cyclic = true
		case 0: // self inclusion of the main file by name
			c.Spec.Name = "self.rc"
			c.Spec.Files["self.rc"] = []byte("set a on\n$include self.rc\n")
			c.Spec.Text = c.Spec.Files["self.rc"]
			c.Cyclic = true
		case 1: // 2-cycle
			c.Spec.Files["a.rc"] = []byte("$include b.rc\nset a on\n")
			c.Spec.Files["b.rc"] = []byte("set b on\n$include a.rc\n")
			c.Spec.Text = []byte("$include a.rc\n")
			c.Cyclic = true
		case 2: // 3-cycle behind a condition
			c.Spec.Files["a.rc"] = []byte("$if mode=" + c.Spec.Mode + "\n$include b.rc\n$endif\n")
			c.Spec.Files["b.rc"] = []byte("$include c.rc\n")
			c.Spec.Files["c.rc"] = []byte("\"x\": abort\n$include a.rc\n")
			c.Spec.Text = []byte("$include a.rc\n")
			c.Cyclic = true
		case 3: // chain
			depth := rapid.SampledFrom([]int{1, 5, 50, 1000, 10000}).Draw(t, "chain")
			for i := 0; i < depth; i++ {
				c.Spec.Files[fmt.Sprintf("f%d.rc", i)] = []byte(fmt.Sprintf("set v%d on\n$include f%d.rc\n", i, i+1))
			}

			c.Spec.Text = []byte("$include f0.rc\n")
		case 4: // missing / erroring files, home paths
			c.Spec.ReadErr["bad.rc"] = "permission denied"
			c.Spec.Text = []byte("$include missing.rc\n$include bad.rc\n$include ~/inputrc\n$include ~\n$include\nset after on\n")
		default: // included file with hostile content
			frag := rapid.SampledFrom(hostile).Draw(t, "incfrag")
			c.Spec.Files["h.rc"] = []byte(frag + "\nset x on\n" + frag)
			c.Spec.Text = []byte("$include h.rc\nset after on\n")
		}

		c.Muts = 1
	default:
		p := genRcProgram(t)
		c.Spec.Files = map[string][]byte{}

		for name, nodes := range p.Files {
			c.Spec.Files[name] = []byte(p.text(nodes))
		}

		lines := strings.Split(strings.TrimSuffix(p.text(p.Main), "\n"), "\n")
		nm := rapid.IntRange(0, 5).Draw(t, "nmut")

		for i := 0; i < nm; i++ {
			if len(lines) == 0 {
				lines = []string{""}
			}

			li := rapid.IntRange(0, len(lines)-1).Draw(t, "mline")

			switch rapid.IntRange(0, 6).Draw(t, "mkind") {
			case 0: // truncate at a rune
				r := []rune(lines[li])
				if len(r) > 0 {
					lines[li] = string(r[:rapid.IntRange(0, len(r)-1).Draw(t, "trunc")])
				}
			case 1: // delete a token
				toks := strings.Split(lines[li], " ")
				if len(toks) > 1 {
					k := rapid.IntRange(0, len(toks)-1).Draw(t, "deltok")
					toks = append(toks[:k], toks[k+1:]...)
					lines[li] = strings.Join(toks, " ")
				}
			case 2: // duplicate a token
				toks := strings.Split(lines[li], " ")
				k := rapid.IntRange(0, len(toks)-1).Draw(t, "duptok")
				toks = append(toks[:k+1], toks[k:]...)
				lines[li] = strings.Join(toks, " ")
			case 3: // delete the line
				lines = append(lines[:li], lines[li+1:]...)
			case 4: // splice a hostile line
				frag := rapid.SampledFrom(hostile).Draw(t, "frag")
				lines = append(lines[:li+1], append([]string{frag}, lines[li+1:]...)...)
			case 5: // append hostile fragment to the line
				lines[li] += rapid.SampledFrom(hostile).Draw(t, "fragtail")
			default: // replace one rune by a hostile byte
				r := []rune(lines[li])
				if len(r) > 0 {
					k := rapid.IntRange(0, len(r)-1).Draw(t, "repl")
					r[k] = rapid.SampledFrom([]rune{0, '"', '\\', '\'', ':', '#', '$', '-', 0x1b, 0x7f, 0x80, 0xff, 0xfffd, ' ', '\t', '\r'}).Draw(t, "replr")
					lines[li] = string(r)
				}
			}
		}

		c.Muts = nm
		sep := rapid.SampledFrom([]string{"\n", "\n", "\r\n"}).Draw(t, "sep")
		text := strings.Join(lines, sep)

		if rapid.Bool().Draw(t, "finalnl") {
			text += sep
		}

		c.Spec.Text = []byte(text)
	}

	return c
}

func runC12(h *Harness, child *rig.Child, c *C12Case) *Failure {
	st := child.Parse(&c.Spec)
	h.Sessions++

	switch st.Kind {
	case "parsed":
		return nil
	case "panic":
		return failf("panic", "c12:panic:"+panicSite(st.Ev.Stack)+":"+panicClass(st.Ev.Value), "parser panicked: %s\n%s\ninput: %q", st.Ev.Value, trimStack(st.Ev.Stack), head(string(c.Spec.Text), 300))
	case "died":
		return failf("fatal", "c12:fatal:"+fatalClass(st.Detail), "child died while parsing: %s\ninput: %q", head(st.Detail, 1200), head(string(c.Spec.Text), 300))
	case "hang":
		return failf("hang", "c12:hang", "parse did not return within the watchdog: %s\ninput: %q", head(st.Detail, 2500), head(string(c.Spec.Text), 300))
	}

	return &Failure{Clause: "infra", Msg: "unexpected stop " + st.Kind + " " + st.Detail, Infra: true}
}

func TestC12(t *testing.T) {
	runProp(t, propDef{
		id: "C12", check: "parsetotal", rule: c12Rule,
		newCase: func() any { return new(C12Case) },
		gen:     func(rt *rapid.T) any { return genC12(rt) },
		classify: func(h *Harness, x any) bool {
			c := x.(*C12Case)
			h.class("shape-" + c.Shape)

			if c.Cyclic {
				h.class("include-cycle")
			}

			text := string(c.Spec.Text)
			acts := strings.Contains(text, "set ") || strings.Contains(text, ": ") || strings.Contains(text, "$if") || strings.Contains(text, "$include")

			if c.Muts > 0 && acts {
				h.class("malformed-with-directives")
			}

			if len(c.Spec.Text) > 65536 {
				h.class("line-over-64k")
			}

			return (c.Muts > 0 && acts) || c.Cyclic
		},
		run: func(h *Harness, child *rig.Child, x any) *Failure { return runC12(h, child, x.(*C12Case)) },
	})
}
