package checks

import (
	"fmt"
	"strings"
	"testing"

	"pgregory.net/rapid"

	"verif/harness/proto"
	"verif/harness/rig"
)

// C14 — completion only rewrites the word being completed.
// C15 — menu completion cycles through every candidate exactly once.

const c14Rule = "line = before . word . after with blanks between, cursor at the start / middle / end of the word or on an empty word; candidate sets from a table-driven Shell.Completer in three variants: engine-chosen prefix (blank-separated word), completer-chosen PREFIX = the blank-delimited word, completer-chosen PREFIX = the last k runes before the cursor; candidates that do and do not extend the prefix, case-only differences with completion-ignore-case on/off, descriptions, shared descriptions, tags, NoSpace matchers, list display, multi-byte values and multi-byte text before the cursor; key sequences of 1-12 keys over {TAB, S-TAB, arrows, C-n, C-p, next/prev tag, C-@, ESC, CR, C-c}; one key per read; oracle: with P the word part before the cursor, B the text before P and A the text from the cursor on, at every input wait where the buffer differs from the original while the menu is open, and after the menu closed (unique match, ESC, accept), the buffer is the original or B + v + A for a candidate v that matches P under the configured case rule; after C-c with an open menu the call has not returned and buffer and cursor are the original ones; non-trivial = >= 2 matching candidates and the cursor not at the end of the line, or a non-empty A inside the same word, or multi-byte text before the cursor, or an abort with an open menu; distinct = hash of the case"

type C14Case struct {
	Before string         `json:"before"`
	Word   string         `json:"word"`
	Split  int            `json:"split"` // runes of Word before the cursor
	After  string         `json:"after"`
	Comp   proto.CompSpec `json:"comp"`
	Ignore bool           `json:"ignore_case"`
	Vars   [][2]string    `json:"vars,omitempty"`
	Keys   []string       `json:"keys"`            // Go-quoted
	Keys2  []string       `json:"keys2,omitempty"` // second completion, at the start of the line the first one left
	Cols   int            `json:"cols"`
	Rows   int            `json:"rows"`
}

var c14MenuKeys = []string{"\\t", "\\t", "\\t", "\\x1b[Z", "\\x1b[A", "\\x1b[B", "\\x1b[C", "\\x1b[D", "\\x0e", "\\x10", "\\x1b[1;5A", "\\x1b[1;5B", "\\x00", "\\x1b", "\\r", "\\x03", "\\x03", "\\x06", "\\x06", "f", "o", "a"}

func genC14(t *rapid.T) *C14Case {
	c := &C14Case{}
	c.Before = rapid.SampledFrom([]string{"", "cmd ", "git commit ", "a b  ", "日本 ", "x --flag "}).Draw(t, "before")
	c.Word = rapid.SampledFrom([]string{"", "f", "fo", "foo", "Fo", "b", "ba", "--f", "file", "fi", "日", "é", "x", "zz"}).Draw(t, "word")
	c.Split = rapid.IntRange(0, len([]rune(c.Word))).Draw(t, "split")
	c.After = rapid.SampledFrom([]string{"", "", " tail", " two words", "  x"}).Draw(t, "after")
	c.Ignore = rapid.Bool().Draw(t, "ignore")

	pools := [][]proto.Cand{
		{{Value: "foo"}, {Value: "foobar"}, {Value: "food"}, {Value: "bar"}, {Value: "baz"}, {Value: "Foo"}, {Value: "FOOD"}},
		{{Value: "file.txt", Desc: "a file"}, {Value: "file2.txt", Desc: "a file"}, {Value: "final", Desc: "last"}, {Value: "first"}, {Value: "bar", Desc: "drink"}},
		{{Value: "--flag", Tag: "flags"}, {Value: "--force", Tag: "flags", Desc: "force it"}, {Value: "--file", Tag: "flags"}, {Value: "file.txt", Tag: "files"}, {Value: "foo/", Tag: "files"}, {Value: "bar/", Tag: "dirs"}},
		{{Value: "日本"}, {Value: "日本語"}, {Value: "日曜"}, {Value: "éclair"}, {Value: "école"}},
		{{Value: "foo"}},
		{{Value: "x1"}, {Value: "x2"}, {Value: "x3"}, {Value: "x4"}, {Value: "x5"}, {Value: "x6"}, {Value: "x7"}, {Value: "x8"}, {Value: "x9"}, {Value: "xa"}, {Value: "xb"}, {Value: "xc"}},
		{},
	}

	c.Comp = proto.CompSpec{Cands: rapid.SampledFrom(pools).Draw(t, "cands"), Mode: rapid.SampledFrom([]string{"word", "word", "prefix", "fixed"}).Draw(t, "mode")}

	if c.Comp.Mode == "fixed" {
		c.Comp.PrefixN = rapid.IntRange(0, c.Split).Draw(t, "prefixn")
	}

	c.Comp.NoSpace = rapid.SampledFrom([]string{"", "", "/", "*"}).Draw(t, "nospace")
	c.Comp.List = rapid.Bool().Draw(t, "list")
	c.Vars = [][2]string{}

	if rapid.IntRange(0, 3).Draw(t, "displayprefix") == 0 {
		c.Vars = append(c.Vars, [2]string{"menu-complete-display-prefix", "on"})
	}

	c.Vars = append(c.Vars, genDisplayVars(t)...)

	c.Keys = append([]string{"\\t"}, rapid.SliceOfN(rapid.SampledFrom(c14MenuKeys), 0, 11).Draw(t, "keys")...)
	if rapid.IntRange(0, 2).Draw(t, "second") == 0 {
		c.Keys2 = append([]string{"\\t"}, rapid.SliceOfN(rapid.SampledFrom(c14MenuKeys), 0, 6).Draw(t, "keys2")...)
	}

	c.Cols = rapid.SampledFrom([]int{20, 40, 80, 120}).Draw(t, "cols")
	c.Rows = rapid.SampledFrom([]int{6, 12, 24}).Draw(t, "rows")

	return c
}

func matchesPrefix(v, p string, ignore bool) bool {
	if ignore {
		return strings.HasPrefix(strings.ToLower(v), strings.ToLower(p))
	}

	return strings.HasPrefix(v, p)
}

func runC14(h *Harness, child *rig.Child, c *C14Case) (*Failure, bool) {
	e := h.env()
	vars := append([][2]string{{"convert-meta", "off"}, {"input-meta", "on"}, {"output-meta", "on"}}, c.Vars...)

	if c.Ignore {
		vars = append(vars, [2]string{"completion-ignore-case", "on"})
	}

	comp := c.Comp
	spec := &proto.Spec{Calls: 1, Inputrc: renderVars("emacs", vars), LogCmds: true, Prompt: &proto.PromptSpec{Primary: "> "}, Completer: &comp,
		Binds: e.bindNames([]string{"backward-char", "beginning-of-line"}, "emacs")}

	d := openDrive(h, child, spec, rig.SessionOpts{Cols: c.Cols, Rows: c.Rows})
	defer d.close()

	line := c.Before + c.Word + c.After

	for _, r := range line {
		d.send([]byte(string(r)))
	}

	wr := []rune(c.Word)
	split := min(c.Split, len(wr))
	back := len([]rune(c.After)) + len(wr) - split

	if back > 0 {
		d.send([]byte(digitArg(back)))
		d.send([]byte(e.key("backward-char")))
	}

	if d.fail != nil {
		return d.fail, false
	}

	orig := d.parks[len(d.parks)-1]
	if orig.Line != line {
		return &Failure{Clause: "infra", Msg: fmt.Sprintf("typed %q, buffer %q", line, orig.Line), Infra: true}, false
	}

	f, nontrivial, goOn := c14Round(c, d, line, c.Keys)
	if f != nil || !goOn || len(c.Keys2) == 0 {
		return f, nontrivial
	}

	// a second completion in the same call, with the cursor at the start of
	// whatever the first one left (state kept from the first must not leak)
	last := d.parks[len(d.parks)-1]
	if d.st.Kind != "park" || last.Local != "" || last.Kind != "main" {
		return nil, nontrivial
	}

	d.send([]byte(e.key("beginning-of-line")))

	if d.fail != nil || d.st.Kind != "park" {
		return d.fail, nontrivial
	}

	last = d.parks[len(d.parks)-1]
	if last.Pos != 0 || last.Local != "" {
		return nil, nontrivial
	}

	f, nt2, _ := c14Round(c, d, last.Line, c.Keys2)
	if f != nil {
		f.Msg = "second completion in the call: " + f.Msg
	}

	return f, nontrivial || nt2
}

// c14Round plays the keys of one completion from the current wait (buffer line)
// and judges every buffer on the way. goOn: the call is still open, at rest.
func c14Round(c *C14Case, d *drive, line string, keys []string) (*Failure, bool, bool) {
	orig := d.parks[len(d.parks)-1]
	cur := orig.Pos
	lr := []rune(line)

	// P: the word part before the cursor
	P := ""

	switch {
	case c.Comp.Mode == "fixed" && c.Comp.PrefixN > 0:
		n := min(c.Comp.PrefixN, cur)
		P = string(lr[cur-n : cur])
	default:
		// (an empty PREFIX cannot be told from an unset one: the engine chooses)
		i := cur
		for i > 0 && lr[i-1] != ' ' && lr[i-1] != '\t' {
			i--
		}

		P = string(lr[i:cur])
	}

	B := string(lr[:cur-len([]rune(P))])
	A := string(lr[cur:])

	matching := []string{}

	for _, cd := range c.Comp.Cands {
		if matchesPrefix(cd.Value, P, c.Ignore) {
			matching = append(matching, cd.Value)
		}
	}

	valid := func(buf string) bool {
		if buf == line {
			return true
		}

		for _, v := range matching {
			if buf == B+v+A {
				return true
			}
		}

		return false
	}

	nontrivial := (len(matching) >= 2 && cur < len(lr)) || (A != "" && !strings.HasPrefix(A, " ")) || hasNonASCII(string(lr[:cur]))
	done := []string{}
	menuOpen := false

	for _, k := range c.Keys {
		b := K(k).dec()
		before := d.parks[len(d.parks)-1]

		// with no menu open only TAB belongs to the clause: any other key is plain
		// editing (cursor keys move the reference point, ESC starts a meta sequence)
		if before.Local != "menu-select" && before.Local != "isearch" && string(b) != "\t" {
			return nil, nontrivial, false
		}

		// the menu's incremental search (C-f): the minibuffer takes the keys and
		// the buffer is not observable; what is judged is how it ends
		if before.Local == "isearch" {
			if s := string(b); s != "\x03" && s != "\t" && len(s) == 1 && s[0] < 0x20 || s == "\x1b" || len(s) > 1 {
				return nil, nontrivial, false
			}

			done = append(done, k)
			ev := d.send(b)

			if d.fail != nil {
				d.fail.Msg = fmt.Sprintf("line %q, keys %v: %s", line, done, d.fail.Msg)
				return d.fail, nontrivial, false
			}

			ctx := fmt.Sprintf("line %q (cursor %d, matching candidates %q), keys %v", line, cur, matching, done)

			switch {
			case ev == nil:
				return failf("abort-returns", "c14:abort-returns", "%s: the key ended the call while the menu search was open: %s", ctx, d.st), true, false
			case ev.Local == "isearch":
				continue
			case string(b) == "\x03" && ev.Local == "":
				nontrivial = true

				if ev.Line != line || ev.Pos != cur {
					return failf("abort-restores", "c14:abort-restores:menu-isearch:"+c.Comp.Mode, "%s: C-c in the menu's incremental search left buffer %q cursor %d, the original is %q cursor %d", ctx, ev.Line, ev.Pos, line, cur), true, false
				}

				continue
			case ev.Local == "menu-select":
				if !valid(ev.Line) {
					return failf("locality", c14sig(c, lr, cur), "%s: buffer %q is neither the original nor B + candidate + A", ctx, ev.Line), true, false
				}

				continue
			}

			return nil, nontrivial, false
		}

		// a printable key with the menu open accepts the candidate and inserts
		// itself: plain editing from there on
		if len(b) == 1 && b[0] >= 0x20 && b[0] < 0x7f {
			d.send(b)
			return d.fail, nontrivial, false
		}

		done = append(done, k)
		ev := d.send(b)

		if d.fail != nil {
			d.fail.Msg = fmt.Sprintf("line %q cursor %d, keys %v: %s", line, cur, done, d.fail.Msg)
			return d.fail, nontrivial, false
		}

		ctx := fmt.Sprintf("line %q (B=%q P=%q A=%q, cursor %d, completer mode %s, ignore-case %v, matching candidates %q), keys %v", line, B, P, A, cur, c.Comp.Mode, c.Ignore, matching, done)
		wasOpen := before.Local == "menu-select"

		if string(b) == "\x03" {
			if wasOpen {
				nontrivial = true

				if ev == nil {
					return failf("abort-returns", "c14:abort-returns", "%s: C-c with an open completion menu ended the call: %s", ctx, d.st), true, false
				}

				if ev.Line != line || ev.Pos != cur {
					return failf("abort-restores", "c14:abort-restores", "%s: C-c with an open completion menu left buffer %q cursor %d, the original is %q cursor %d", ctx, ev.Line, ev.Pos, line, cur), true, false
				}

				menuOpen = false

				continue
			}

			return nil, nontrivial, false // plain interrupt: the call returns, nothing more to check
		}

		if ev == nil {
			// CR: the returned line obeys the same locality
			if d.st.Kind == "return" && !valid(d.st.Ev.Line) {
				return failf("locality", c14sig(c, lr, cur), "%s: accepted line %q is neither the original nor B + candidate + A", ctx, d.st.Ev.Line), true, false
			}

			return nil, nontrivial, false
		}

		// C-@ accepts and completes again on the new line, and a cursor key with no
		// menu open moves the cursor: the reference point of the clause moves
		if string(b) == "\x00" || (ev.Local != "menu-select" && !wasOpen && ev.Line == line && ev.Pos != cur) {
			return nil, nontrivial, ev.Local == "" && ev.Kind == "main"
		}

		// entering the menu's incremental search: the minibuffer hides the buffer
		if ev.Local == "isearch" {
			continue
		}

		if !valid(ev.Line) {
			return failf("locality", c14sig(c, lr, cur), "%s: buffer %q is neither the original nor B + candidate + A (menu %v)", ctx, ev.Line, ev.Local), true, false
		}

		menuOpen = ev.Local == "menu-select"

		// in emacs a lone ESC is the start of a meta sequence: what follows is no
		// longer a menu key
		if string(b) == "\x1b" {
			return nil, nontrivial, false
		}

		// C-@ accepts and completes again on the new line: the reference point moves
		if string(b) == "\x00" || (!menuOpen && ev.Line != line) {
			return nil, nontrivial, false
		}
	}

	_ = menuOpen

	last := d.parks[len(d.parks)-1]

	return nil, nontrivial, d.st.Kind == "park" && last.Local == "" && last.Kind == "main"
}

func c14sig(c *C14Case, lr []rune, cur int) string {
	if hasNonASCII(string(lr[:cur])) {
		return "c14:locality:multibyte-before-cursor"
	}

	return "c14:locality:" + c.Comp.Mode
}

func TestC14(t *testing.T) {
	nt := map[*C14Case]bool{}

	runProp(t, propDef{
		id: "C14", check: "complocal", rule: c14Rule,
		setup:   func(h *Harness) { h.env() },
		newCase: func() any { return new(C14Case) },
		gen:     func(rt *rapid.T) any { return genC14(rt) },
		classify: func(h *Harness, x any) bool {
			c := x.(*C14Case)
			v := nt[c]
			delete(nt, c)
			h.class("mode-" + c.Comp.Mode)

			if c.Ignore {
				h.class("ignore-case")
			}

			return v
		},
		run: func(h *Harness, child *rig.Child, x any) *Failure {
			c := x.(*C14Case)
			f, v := runC14(h, child, c)
			nt[c] = v

			return f
		},
	})
}

// ---------------------------------------------------------------------------
// C15

const c15Rule = "N in 2..60 DISTINCT candidate values (short, long, wider than the terminal, wide runes) in shapes: plain grid, described list, aliases (k values sharing one description, k up to 8), 2-3 tags each with its own shape, mixes with and without descriptions inside a tag; terminal width 10..160 and height 5..50 (fewer rows than the menu needs); empty prefix and common-prefix cases; drive: TAB then menu-complete x (2N+3), separately menu-complete-backward x (2N+3), and mixed forward/backward walks of length > 2N; one key per read; oracle: the word inserted in the line after each press over presses 1..N is a permutation of the N values, press N+k equals press k; backward likewise for its own order; mixed walks: every inserted word is one of the values; non-trivial = N >= 3 and (>= 2 groups, or aliases, or more rows than the screen, or >= 2 columns); distinct = hash of the case"

type C15Case struct {
	Cands  []proto.Cand `json:"cands"`
	Prefix string       `json:"prefix"`
	List   bool         `json:"list"`
	Cols   int          `json:"cols"`
	Rows   int          `json:"rows"`
	Drive  string       `json:"drive"` // forward | backward | mixed
	Mixed  []bool       `json:"mixed,omitempty"`
}

var c15Names = []string{"Makefile", "makefile", "MAKEFILE", "README", "readme", "Readme.md", "main.go", "main", "Main.go", "-v", "-V", "-r", "-R", "--verbose", "--Verbose",
	"--version", "a", "A", "ab", "aB", "Ab", "AB", "abc", "x.y", "x_y", "x-y", "X-Y", "été", "Été", "ÉTÉ", "日本", "日本語", "z", "Z", "zz", "zZ", "0", "00", "1", "10", "2",
	"file.txt", "File.txt", "FILE.TXT", "file.TXT", "src/", "Src/", "SRC/", "a.b", "A.b", "a.B", "~", "_", "__", "@home", "@Home", "k8s", "K8s", "K8S", "q", "Q", "qq", "Qq", "qQ", "QQ"}

func genC15(t *rapid.T) *C15Case {
	c := &C15Case{Cols: rapid.SampledFrom([]int{10, 16, 24, 40, 80, 120, 160}).Draw(t, "cols"), Rows: rapid.SampledFrom([]int{5, 8, 12, 24, 50}).Draw(t, "rows")}
	c.Prefix = rapid.SampledFrom([]string{"", "", "pre"}).Draw(t, "prefix")
	n := rapid.SampledFrom([]int{2, 3, 4, 5, 7, 8, 12, 20, 33, 60}).Draw(t, "n")
	shape := rapid.SampledFrom([]string{"plain", "described", "aliases", "tags", "mixed"}).Draw(t, "shape")
	long := rapid.IntRange(0, 4).Draw(t, "long") == 0
	wide := rapid.IntRange(0, 5).Draw(t, "wide") == 0

	// value style: numbered, or names as completers produce them (values that
	// differ only by case, that are prefixes of each other, flags, punctuation)
	named := rapid.IntRange(0, 2).Draw(t, "named") == 0
	names := []string{}

	if named {
		names = rapid.Permutation(c15Names).Draw(t, "names")
		n = min(n, len(names))
	}

	for i := 0; i < n; i++ {
		v := fmt.Sprintf("%sv%02d", c.Prefix, i)
		if named {
			v = c.Prefix + names[i]
		}

		if long && i%3 == 0 {
			v += strings.Repeat("-long", rapid.IntRange(1, 8).Draw(t, "longlen"))
		}

		if wide && i%4 == 1 {
			v += "日本"
		}

		cd := proto.Cand{Value: v}

		switch shape {
		case "described":
			cd.Desc = fmt.Sprintf("description number %d", i)
		case "aliases":
			cd.Desc = fmt.Sprintf("shared %d", i/rapid.SampledFrom([]int{2, 3, 8}).Draw(t, "aliasgroup"))
		case "tags":
			cd.Tag = fmt.Sprintf("tag%d", i%rapid.SampledFrom([]int{2, 3}).Draw(t, "ntags"))
			if i%2 == 0 {
				cd.Desc = "tagged desc"
			}
		case "mixed":
			if i%3 == 0 {
				cd.Desc = fmt.Sprintf("d%d", i%2)
			}

			if i%5 == 0 {
				cd.Tag = "other"
			}
		}

		c.Cands = append(c.Cands, cd)
	}

	c.List = rapid.Bool().Draw(t, "list")
	c.Drive = rapid.SampledFrom([]string{"forward", "forward", "backward", "mixed"}).Draw(t, "drive")

	if c.Drive == "mixed" {
		c.Mixed = rapid.SliceOfN(rapid.Bool(), 2*n+3, 2*n+3).Draw(t, "mixed")
	}

	return c
}

func runC15(h *Harness, child *rig.Child, c *C15Case) (*Failure, bool) {
	e := h.env()
	comp := &proto.CompSpec{Cands: c.Cands, Mode: "word", List: c.List}
	spec := &proto.Spec{Calls: 1, Inputrc: renderVars("emacs", [][2]string{{"convert-meta", "off"}, {"input-meta", "on"}, {"output-meta", "on"}}), LogCmds: true,
		Prompt: &proto.PromptSpec{Primary: "> "}, Completer: comp, Binds: e.bindNames([]string{"menu-complete", "menu-complete-backward"}, "emacs", "menu-select")}

	d := openDrive(h, child, spec, rig.SessionOpts{Cols: c.Cols, Rows: c.Rows})
	defer d.close()

	before := "cmd "

	for _, r := range before + c.Prefix {
		d.send([]byte(string(r)))
	}

	if d.fail != nil {
		return d.fail, false
	}

	n := len(c.Cands)
	values := map[string]bool{}

	for _, cd := range c.Cands {
		values[cd.Value] = true
	}

	presses := 2*n + 3
	words := []string{}
	fwd, bwd := e.key("menu-complete"), e.key("menu-complete-backward")

	for i := 0; i < presses; i++ {
		key := fwd

		switch {
		case c.Drive == "backward":
			key = bwd
		case c.Drive == "mixed" && i < len(c.Mixed) && !c.Mixed[i]:
			key = bwd
		case i == 0 && c.Drive == "forward":
			key = "\t"
		}

		ev := d.send([]byte(key))
		if d.fail != nil {
			d.fail.Msg = fmt.Sprintf("%d candidates, %dx%d terminal, press %d of %s: %s", n, c.Cols, c.Rows, i+1, c.Drive, d.fail.Msg)
			return d.fail, true
		}

		if ev == nil {
			return failf("ended", "c15:call-ended", "press %d ended the call: %s", i+1, d.st), true
		}

		if !strings.HasPrefix(ev.Line, before) {
			return failf("word", "c15:before-changed", "press %d: buffer %q no longer starts with %q", i+1, ev.Line, before), true
		}

		w := strings.TrimPrefix(ev.Line, before)
		words = append(words, w)

		if !values[w] {
			return failf("foreign", "c15:not-a-candidate:"+c.Drive, "%d candidates on a %dx%d terminal, %s press %d inserted %q, which is not one of the candidates (words so far %q)", n, c.Cols, c.Rows, c.Drive, i+1, w, words), true
		}
	}

	groups := map[string]bool{}
	descs := map[string]int{}

	for _, cd := range c.Cands {
		groups[cd.Tag] = true

		if cd.Desc != "" {
			descs[cd.Desc]++
		}
	}

	aliases := false

	for _, k := range descs {
		if k > 1 {
			aliases = true
		}
	}

	nontrivial := n >= 3 && (len(groups) >= 2 || aliases || n > c.Rows || c.Cols >= 40)

	if c.Drive == "mixed" {
		return nil, nontrivial
	}

	seen := map[string]int{}

	for i := 0; i < n; i++ {
		if j, dup := seen[words[i]]; dup {
			return failf("permutation", "c15:cycle:"+c.Drive+c15shape(aliases, len(groups)), "%d candidates on a %dx%d terminal (list=%v), %s cycling: press %d shows %q again (first at press %d) before every candidate was visited; never visited: %q; order: %q",
				n, c.Cols, c.Rows, c.List, c.Drive, i+1, words[i], j+1, c15missing(values, words[:n]), words[:n]), true
		}

		seen[words[i]] = i
	}

	for k := n; k < len(words); k++ {
		if words[k] != words[k-n] {
			return failf("period", "c15:period:"+c.Drive+c15shape(aliases, len(groups)), "%d candidates on a %dx%d terminal, %s cycling: press %d shows %q but press %d showed %q (the cycle does not repeat with period N); order: %q",
				n, c.Cols, c.Rows, c.Drive, k+1, words[k], k-n+1, words[k-n], words), true
		}
	}

	return nil, nontrivial
}

func c15shape(aliases bool, groups int) string {
	switch {
	case aliases && groups > 1:
		return ":aliases+tags"
	case aliases:
		return ":aliases"
	case groups > 1:
		return ":tags"
	}

	return ":plain"
}

func c15missing(values map[string]bool, words []string) []string {
	seen := map[string]bool{}
	for _, w := range words {
		seen[w] = true
	}

	out := []string{}

	for v := range values {
		if !seen[v] {
			out = append(out, v)
		}
	}

	return out
}

func TestC15(t *testing.T) {
	nt := map[*C15Case]bool{}

	runProp(t, propDef{
		id: "C15", check: "menucycle", rule: c15Rule,
		setup:   func(h *Harness) { h.env() },
		newCase: func() any { return new(C15Case) },
		gen:     func(rt *rapid.T) any { return genC15(rt) },
		classify: func(h *Harness, x any) bool {
			c := x.(*C15Case)
			v := nt[c]
			delete(nt, c)
			h.class("drive-" + c.Drive)
			h.class(fmt.Sprintf("n-%d", len(c.Cands)))

			return v
		},
		run: func(h *Harness, child *rig.Child, x any) *Failure {
			c := x.(*C15Case)
			f, v := runC15(h, child, c)
			nt[c] = v

			return f
		},
	})
}
