package checks

import (
	"fmt"
	"os"
	"testing"
	"time"

	"verif/harness/proto"
	"verif/harness/rig"
)

func TestSmoke(t *testing.T) {
	bin := os.Getenv("VERIF_RLAPP")
	c, err := rig.StartChild(bin, t.TempDir())
	if err != nil {
		t.Fatal(err)
	}
	defer c.Quit()
	t0 := time.Now()
	for i := 0; i < 3; i++ {
		spec := &proto.Spec{Calls: 1, LogCmds: true, Prompt: &proto.PromptSpec{Primary: "$ "}}
		s, st := c.Start(spec, rig.SessionOpts{Cols: 20, Rows: 6, KeepScreens: true})
		fmt.Println(st)
		for _, k := range []string{"h", "e", "llo wor", "ld this wraps", "\x01", "X", "\r"} {
			st = s.Send([]byte(k))
			fmt.Println(st, len(st.Cmds))
			if st.X != nil {
				for _, l := range st.X.Dump() {
					fmt.Printf("   |%s|\n", l)
				}
				fmt.Println("   cursor", st.X.Row, st.X.Col)
			}
		}
		fmt.Println(s.Finish())
	}
	fmt.Println(time.Since(t0), c.Emu.Unhandled)
}
