package checks

import (
	"fmt"
	"strings"
	"testing"

	"pgregory.net/rapid"

	"verif/harness/proto"
	"verif/harness/rig"
)

// C16 — yank gives back exactly what kill took.

const c16Rule = "buffers (words, punctuation, quotes, runs of blanks, embedded newlines via a multi-line accept rule, multi-byte text) x every cursor position x kill command by NAME on a private sequence (kill-line, backward-kill-line, unix-line-discard, kill-whole-line, kill-word, backward-kill-word, unix-word-rubout, shell-kill-word, shell-backward-kill-word, kill-region after set-mark + motion (one time in four with exchange-point-and-mark in between), kill-buffer; vi: vi-delete (x) with counts then vi-put-before (P)) x optional numeric argument, followed by yank at once, and for a single kill by a small edit inside the yanked text and a second yank (which must insert the killed text again); sequences kill, motion, kill, ..., yank and directly consecutive kills; one command per read; oracle: the buffer after a kill is the buffer before with ONE contiguous range removed, that range is the kill register, an immediate yank restores the buffer, and after several kills yank inserts the text of the most recent one (directly consecutive kills may also have accumulated, the statement is silent); non-trivial = something was removed and the cursor was inside the buffer, or the buffer is multi-line / multi-byte, or a count != 1, or >= 2 kills; distinct = hash of the case"

type C16Case struct {
	Mode   string   `json:"mode"` // emacs | vi
	Text   string   `json:"text"`
	Back   int      `json:"back"`             // cursor = len(text) - back
	Kills  []C16Kil `json:"kills"`            // at least one
	Region int      `json:"region,omitempty"` // kill-region: runes moved after set-mark (negative = backward)
	// kill-region: exchange-point-and-mark between the motion and the kill
	Exchange bool `json:"exchange,omitempty"`
	// single kill: after the yank, move back Again runes, type a character and
	// yank once more: the text inserted must still be what the kill removed
	Again int `json:"again,omitempty"`
	// display-only variables (the property is stated for any configuration)
	Vars [][2]string `json:"vars,omitempty"`
}

type C16Kil struct {
	Cmd    string `json:"cmd"`
	Count  int    `json:"count,omitempty"`  // 0 = none
	Motion string `json:"motion,omitempty"` // command run before this kill (for kills after the first); "" = directly consecutive
}

var c16Kills = []string{"kill-line", "backward-kill-line", "unix-line-discard", "kill-whole-line", "kill-word", "backward-kill-word", "unix-word-rubout",
	"shell-kill-word", "shell-backward-kill-word", "kill-region", "kill-buffer"}

var c16Motions = []string{"backward-char", "forward-char", "backward-word", "forward-word", "beginning-of-line", "end-of-line"}

var c16Pieces = []string{"foo", "bar", "baz qux", " ", "  ", "a", "-x", "--flag=v", "a.b/c", "\"q w\"", "'s'", "(p q)", "$(c)", ";", "&&", "\n", "\n  ", "日本", "é", "한 글", "x_y", "1 2 3", "end"}

func genC16(t *rapid.T) *C16Case {
	c := &C16Case{Mode: rapid.SampledFrom([]string{"emacs", "emacs", "emacs", "vi"}).Draw(t, "mode")}
	c.Text = strings.Join(rapid.SliceOfN(rapid.SampledFrom(c16Pieces), 0, 8).Draw(t, "pieces"), rapid.SampledFrom([]string{" ", "", " "}).Draw(t, "join"))
	n := len([]rune(c.Text))
	c.Back = rapid.IntRange(0, n).Draw(t, "back")
	c.Vars = genDisplayVars(t)

	if c.Mode == "vi" {
		// vi: delete-character with a count, then put-before
		c.Text = strings.ReplaceAll(c.Text, "\n", " ")
		c.Kills = []C16Kil{{Cmd: "vi-delete", Count: rapid.SampledFrom([]int{0, 0, 2, 3, 7}).Draw(t, "count")}}

		return c
	}

	nk := rapid.SampledFrom([]int{1, 1, 1, 2, 3, 4}).Draw(t, "nkills")

	for i := 0; i < nk; i++ {
		k := C16Kil{Cmd: rapid.SampledFrom(c16Kills).Draw(t, "kill"), Count: rapid.SampledFrom([]int{0, 0, 0, 2, 3}).Draw(t, "count")}

		if k.Cmd == "kill-region" || k.Cmd == "kill-whole-line" || k.Cmd == "kill-buffer" || k.Cmd == "unix-line-discard" {
			k.Count = 0
		}

		if i > 0 && rapid.IntRange(0, 3).Draw(t, "hasmotion") > 0 {
			k.Motion = rapid.SampledFrom(c16Motions).Draw(t, "motion")
		}

		c.Kills = append(c.Kills, k)
	}

	c.Region = rapid.IntRange(-6, 6).Draw(t, "region")
	c.Exchange = rapid.IntRange(0, 3).Draw(t, "exchange") == 0
	c.Again = rapid.SampledFrom([]int{0, 0, 1, 2, 3}).Draw(t, "again")

	return c
}

func c16WordKill(cmd string) bool {
	switch cmd {
	case "kill-word", "backward-kill-word", "unix-word-rubout", "shell-kill-word", "shell-backward-kill-word", "backward-word", "forward-word":
		return true
	}

	return false
}

func hasNonASCII(s string) bool {
	for _, r := range s {
		if r >= 0x80 {
			return true
		}
	}

	return false
}

func digitArg(n int) string {
	var sb strings.Builder
	for _, d := range fmt.Sprint(n) {
		sb.WriteString("\x1b" + string(d))
	}

	return sb.String()
}

// removedRange reports whether a is b with one contiguous range removed whose
// text is k.
func removedRange(b, a []rune, k string) bool {
	d := len(b) - len(a)
	if d < 0 || d != len([]rune(k)) {
		return false
	}

	for i := 0; i+d <= len(b); i++ {
		if string(b[:i])+string(b[i+d:]) == string(a) && string(b[i:i+d]) == k {
			return true
		}
	}

	return false
}

func oneRangeRemoved(b, a []rune) (string, bool) {
	d := len(b) - len(a)
	if d < 0 {
		return "", false
	}

	for i := 0; i+d <= len(b); i++ {
		if string(b[:i])+string(b[i+d:]) == string(a) {
			return string(b[i : i+d]), true
		}
	}

	return "", false
}

// insertedText: y is x with one contiguous insertion; returns candidates.
func insertedTexts(x, y []rune) []string {
	d := len(y) - len(x)
	if d < 0 {
		return nil
	}

	out := []string{}

	for i := 0; i+d <= len(y); i++ {
		if string(y[:i])+string(y[i+d:]) == string(x) {
			out = append(out, string(y[i:i+d]))
		}
	}

	return out
}

func runC16(h *Harness, child *rig.Child, c *C16Case) (f *Failure, nontrivial bool) {
	e := h.env()
	names := append(append([]string{"yank", "set-mark", "exchange-point-and-mark", "forward-char", "backward-char", "vi-delete", "vi-put-before"}, c16Kills...), c16Motions...)
	spec := &proto.Spec{Calls: 1, Inputrc: renderVars(c.Mode, append([][2]string{{"convert-meta", "off"}, {"input-meta", "on"}, {"output-meta", "on"}}, c.Vars...)),
		LogCmds: true, Multiline: "backslash", Prompt: &proto.PromptSpec{Primary: "> "}, Binds: e.bindNames(names, mainKeymaps...)}

	d := openDrive(h, child, spec, rig.SessionOpts{Cols: 120, Rows: 40})
	defer d.close()

	// type the text (newlines through the multi-line accept rule: "\" then CR)
	for _, r := range c.Text {
		if r == '\n' {
			d.sendAll("\\", "\r")
			continue
		}

		d.send([]byte(string(r)))
	}

	if d.fail != nil {
		return d.fail, false
	}

	text := d.parks[len(d.parks)-1].Line // as the editor holds it (with the backslashes)
	n := len([]rune(text))
	back := c.Back

	if back > n {
		back = n
	}

	if c.Mode == "vi" {
		if n == 0 {
			return nil, false
		}

		d.send([]byte("\x1b"))
		d.send([]byte("0"))

		if pos := n - back; pos > 0 && pos < n {
			d.send([]byte(fmt.Sprint(pos)))
			d.send([]byte("l"))
		}

		if d.fail != nil {
			return d.fail, false
		}

		before := d.parks[len(d.parks)-1]

		if k := c.Kills[0]; k.Count > 0 {
			d.send([]byte(fmt.Sprint(k.Count)))
		}

		after := d.send([]byte("x"))
		if after == nil {
			return d.fail, false
		}

		b, a := []rune(before.Line), []rune(after.Line)

		K, ok := oneRangeRemoved(b, a)
		if !ok {
			return failf("contiguous", "c16:vi-delete:not-contiguous", "vi-delete changed %q into %q: not one contiguous removal", before.Line, after.Line), true
		}

		if K != "" && !removedRange(b, a, after.Kill) {
			return failf("register", "c16:vi-delete:register", "vi-delete (count %d) at %d removed %q from %q but the kill register holds %q", c.Kills[0].Count, before.Pos, K, before.Line, after.Kill), true
		}

		y := d.send([]byte("P"))
		if y == nil {
			return d.fail, false
		}

		// When the deletion reaches the end of the line the cursor cannot stay "at
		// the same point" (vi keeps it on a character): outside the statement.
		reachesEnd := before.Pos+len([]rune(K)) >= len(b)

		if K != "" && !reachesEnd && y.Line != before.Line {
			return failf("restore", "c16:vi-put-before:restore", "x then P: buffer %q became %q then %q (removed %q, register %q)", before.Line, after.Line, y.Line, K, after.Kill), true
		}

		return nil, K != "" && (before.Pos > 0 || c.Kills[0].Count > 1 || len(text) != n)
	}

	// emacs: place the cursor
	if back > 0 {
		d.send([]byte(digitArg(back)))
		d.send([]byte(e.key("backward-char")))
	}

	if d.fail != nil {
		return d.fail, false
	}

	var lastK string

	kills := 0
	removedSomething := false
	interior := false

	for i, k := range c.Kills {
		if i > 0 && k.Motion != "" {
			d.send([]byte(e.key(k.Motion)))
		}

		if k.Cmd == "kill-region" {
			d.send([]byte(e.key("set-mark")))

			if c.Region > 0 {
				d.send([]byte(digitArg(c.Region)))
				d.send([]byte(e.key("forward-char")))
			} else if c.Region < 0 {
				d.send([]byte(digitArg(-c.Region)))
				d.send([]byte(e.key("backward-char")))
			}

			if c.Exchange {
				d.send([]byte(e.key("exchange-point-and-mark")))
			}
		}

		if d.fail != nil {
			return d.fail, false
		}

		before := d.parks[len(d.parks)-1]

		if k.Count > 0 {
			d.send([]byte(digitArg(k.Count)))
		}

		after := d.send([]byte(e.key(k.Cmd)))
		if after == nil {
			return d.fail, false
		}

		b, a := []rune(before.Line), []rune(after.Line)

		K, ok := oneRangeRemoved(b, a)
		if !ok {
			return failf("contiguous", "c16:"+k.Cmd+":not-contiguous", "%s (count %d) at %d changed %q into %q: not one contiguous removal", k.Cmd, k.Count, before.Pos, before.Line, after.Line), true
		}

		if K == "" {
			continue // nothing removed: nothing written to the ring, by design
		}

		removedSomething = true
		if before.Pos > 0 && before.Pos < len(b) {
			interior = true
		}

		direct := i > 0 && k.Motion == "" && kills > 0

		switch {
		case removedRange(b, a, after.Kill):
			lastK = after.Kill
		case direct && (after.Kill == lastK+K || after.Kill == K+lastK) && K != "":
			lastK = after.Kill // accumulated consecutive kills: allowed, the statement is silent
		default:
			return failf("register", "c16:"+k.Cmd+":register", "%s (count %d) at %d removed %q from %q but the kill register holds %q", k.Cmd, k.Count, before.Pos, K, before.Line, after.Kill), true
		}

		kills++

		// single kill: yank at once must restore
		if len(c.Kills) == 1 {
			y := d.send([]byte(e.key("yank")))
			if y == nil {
				return d.fail, false
			}

			if y.Line != before.Line {
				sig := "c16:" + k.Cmd + ":restore"

				return failf("restore", sig, "%s (count %d) at %d then yank: %q -> %q -> %q (register %q)", k.Cmd, k.Count, before.Pos, before.Line, after.Line, y.Line, after.Kill), true
			}

			if c.Again > 0 {
				d.send([]byte(digitArg(c.Again)))
				d.send([]byte(e.key("backward-char")))

				x := d.send([]byte("X"))
				if x == nil {
					return d.fail, false
				}

				y2 := d.send([]byte(e.key("yank")))
				if y2 == nil {
					return d.fail, false
				}

				found := false

				for _, ins := range insertedTexts([]rune(x.Line), []rune(y2.Line)) {
					if ins == lastK {
						found = true
					}
				}

				if !found || y2.Kill != lastK {
					return failf("yank-again", "c16:yank-again", "%s at %d removed %q; yank restored %q; after moving back %d and typing X (%q) a second yank gives %q with the register holding %q: not the text the kill removed", k.Cmd, before.Pos, lastK, y.Line, c.Again, x.Line, y2.Line, y2.Kill), true
				}
			}
		}
	}

	if len(c.Kills) > 1 && kills > 0 {
		before := d.parks[len(d.parks)-1]

		y := d.send([]byte(e.key("yank")))
		if y == nil {
			return d.fail, false
		}

		found := false

		for _, ins := range insertedTexts([]rune(before.Line), []rune(y.Line)) {
			if ins == lastK {
				found = true
			}
		}

		if !found {
			return failf("most-recent", "c16:yank:most-recent", "after %d kills yank turned %q into %q: the text inserted is not the most recent kill %q", kills, before.Line, y.Line, lastK), true
		}
	}

	multi := len(text) != n || strings.Contains(text, "\n")
	counted := false

	for _, k := range c.Kills {
		if k.Count > 1 {
			counted = true
		}
	}

	return nil, removedSomething && (interior || multi || counted || kills >= 2)
}

func TestC16(t *testing.T) {
	nt := map[*C16Case]bool{}

	runProp(t, propDef{
		id: "C16", check: "killyank", rule: c16Rule,
		setup:   func(h *Harness) { h.env() },
		newCase: func() any { return new(C16Case) },
		gen:     func(rt *rapid.T) any { return genC16(rt) },
		classify: func(h *Harness, x any) bool {
			c := x.(*C16Case)
			v := nt[c]
			delete(nt, c)

			for _, k := range c.Kills {
				h.class("kill:" + k.Cmd)
			}

			if len(c.Kills) > 1 {
				h.class("several-kills")
			}

			if strings.Contains(c.Text, "\n") {
				h.class("multi-line")
			}

			return v
		},
		run: func(h *Harness, child *rig.Child, x any) *Failure {
			c := x.(*C16Case)
			f, v := runC16(h, child, c)
			nt[c] = v

			return f
		},
	})
}
