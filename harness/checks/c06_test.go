package checks

import (
	"fmt"
	"strings"
	"testing"

	"pgregory.net/rapid"

	"verif/harness/proto"
	"verif/harness/rig"
)

// C06 — cursor and selection stay inside the buffer; movements never edit.

const c06Rule = "editor states reached by generated scripts (C01 alphabet: typing incl. multi-byte, history recall of multi-line / multi-byte entries, kills, mode switches, vi operators, visual mode, searches, menus) then ONE named movement/copy command (copies in vi command mode also into a named register and then once more appending to it; one case in five starts from a buffer that is a proper prefix of a history entry; one in four ends the script with a region or selection made active (set-mark + motion, exchange-point-and-mark once or twice, visual mode, select-in-word) followed by 1-3 commands that shrink the buffer under it) (every command the library documents as movement or copy: forward/backward-char/word, shell words, beginning/end-of-line, screen lines, all vi-* motions, vi-match, vi-goto-column, vi-first-print, marks, character searches with an argument key, copy-region-as-kill, copy-backward/forward-word, vi-yank-to + motion, vi-yank-whole-line, select-* text objects) with a numeric argument from {none, 2, 3, 12, 0, -, -2, 999}, then accept; oracle: (a) at EVERY main-loop input wait 0 <= pos <= len, in a vi command keymap (isearch aside) the cursor is on a character unless the buffer or its line is empty, an active selection is (-1,-1) or 0 <= b <= e <= len; (b) a line returned without error by accept-line delivered as its own read equals the buffer at the preceding wait; (c) the named command leaves the buffer text unchanged; non-trivial = command ran on a multi-line or multi-byte buffer, or with a numeric argument, or in vi command/visual mode; distinct = hash of the case"

var c06Commands = []string{
	"forward-char", "backward-char", "forward-word", "backward-word", "shell-forward-word", "shell-backward-word", "beginning-of-line", "end-of-line",
	"previous-screen-line", "next-screen-line", "vi-forward-char", "vi-backward-char", "vi-forward-word", "vi-forward-bigword", "vi-end-word", "vi-end-bigword",
	"vi-backward-word", "vi-backward-bigword", "vi-backward-end-word", "vi-backward-end-bigword", "vi-next-word", "vi-prev-word", "vi-end-of-line",
	"vi-match", "vi-column", "vi-first-print", "vi-back-to-indent", "vi-goto-mark", "vi-set-mark",
	"vi-find-next-char", "vi-find-prev-char", "vi-find-next-char-skip", "vi-find-prev-char-skip", "vi-char-search", "character-search", "character-search-backward",
	"set-mark", "exchange-point-and-mark", "copy-region-as-kill", "copy-backward-word", "copy-forward-word", "vi-yank-whole-line", "vi-yank-to",
	"select-in-word", "select-a-word", "select-in-blank-word", "select-a-blank-word", "select-in-shell-word", "select-a-shell-word",
}

type C06Case struct {
	Mode      string      `json:"mode"`
	Vars      [][2]string `json:"vars,omitempty"`
	Hist      []string    `json:"hist,omitempty"`
	Multiline string      `json:"multiline,omitempty"`
	Steps     []Step      `json:"steps"`
	Cmd       string      `json:"cmd"`
	Count     string      `json:"count,omitempty"`
	Arg       string      `json:"arg,omitempty"`
	Motion    string      `json:"motion,omitempty"` // vi-yank-to
	Reg       string      `json:"reg,omitempty"`    // vi command mode: "" | "a" (named register) | "aA" (then once more, appending to it)
}

func genC06(t *rapid.T, e *Env) *C06Case {
	c := &C06Case{Mode: rapid.SampledFrom([]string{"emacs", "vi", "vi"}).Draw(t, "mode")}

	for _, v := range genVars(t, 2) {
		switch v[0] {
		case "history-autosuggest", "autocomplete", "autopairs":
		default:
			c.Vars = append(c.Vars, v)
		}
	}

	c.Vars = append(c.Vars, [2]string{"convert-meta", "off"})
	c.Hist = rapid.SampledFrom([][]string{{}, {"first line\nsecond line", "single", "x\ny\nz"}, {"日本語 コマンド", "é accent", "한글 😀"}, {"ls -la", "echo hello world", "a (b c) d"},
		{"line one\n\nline three", "\n", "tail\n"}}).Draw(t, "hist")
	c.Multiline = rapid.SampledFrom([]string{"", "backslash"}).Draw(t, "multiline")
	c.Steps = genScript(t, e, 0, 12)

	// autosuggestion is off in this check (with it on, forward movements at the
	// end of the line accept part of the suggestion, by design): the commands
	// that switch it on are left out of the scripts like the variable is
	kept := c.Steps[:0]

	for _, s := range c.Steps {
		if strings.HasPrefix(s.Note, "autosuggest-") || strings.HasPrefix(s.Cmd, "autosuggest-") {
			continue
		}

		kept = append(kept, s)
	}

	c.Steps = kept

	// a buffer that is a proper prefix of a history entry, cursor on or after its
	// last character (what history-based suggestions key on)
	if len(c.Hist) > 0 && rapid.IntRange(0, 4).Draw(t, "prefixstate") == 0 {
		entry := []rune(strings.SplitN(rapid.SampledFrom(c.Hist).Draw(t, "entry"), "\n", 2)[0])

		if len(entry) > 1 {
			n := rapid.IntRange(1, len(entry)-1).Draw(t, "cut")
			c.Steps = []Step{{Keys: enc([]byte(string(entry[:n]))), Note: "prefix of a history entry"}}

			switch rapid.IntRange(0, 2).Draw(t, "then") {
			case 1:
				c.Steps = append(c.Steps, Step{Cmd: "backward-char"})
			case 2:
				if c.Mode == "vi" {
					c.Steps = append(c.Steps, Step{Cmd: "vi-movement-mode"})
				}
			}
		}
	}

	c.Reg = rapid.SampledFrom([]string{"", "", "a", "aA", "aA"}).Draw(t, "reg")

	// a recalled multi-line entry with the cursor moved to an upper line
	multi := false

	for _, h := range c.Hist {
		multi = multi || strings.Contains(h, "\n")
	}

	if multi && rapid.IntRange(0, 3).Draw(t, "multistate") == 0 {
		c.Steps = nil

		for i, n := 0, rapid.IntRange(1, len(c.Hist)).Draw(t, "recall"); i < n; i++ {
			c.Steps = append(c.Steps, Step{Cmd: "previous-history"})
		}

		if c.Mode == "vi" && rapid.Bool().Draw(t, "cmdmode") {
			c.Steps = append(c.Steps, Step{Cmd: "vi-movement-mode"})
		}

		for i, n := 0, rapid.IntRange(0, 2).Draw(t, "up"); i < n; i++ {
			c.Steps = append(c.Steps, Step{Cmd: "up-line-or-history"})
		}

		for i, n := 0, rapid.IntRange(0, 3).Draw(t, "left"); i < n; i++ {
			c.Steps = append(c.Steps, Step{Cmd: "backward-char"})
		}
	}

	// a region or selection made active, then commands that SHRINK the buffer
	// under it (clause (a) is looked at after every step)
	if rapid.IntRange(0, 3).Draw(t, "regionshrink") == 0 {
		if len(c.Steps) == 0 || rapid.Bool().Draw(t, "sometext") {
			c.Steps = append(c.Steps, Step{Keys: enc([]byte(rapid.SampledFrom([]string{"echo hello world", "ab", "日本語 text", "a (b c) d e"}).Draw(t, "rtext"))), Note: "text"})
		}

		for i := rapid.IntRange(0, 4).Draw(t, "rleft"); i > 0; i-- {
			c.Steps = append(c.Steps, Step{Cmd: "backward-char"})
		}

		switch rapid.IntRange(0, 4).Draw(t, "rkind") {
		case 0:
			c.Steps = append(c.Steps, Step{Cmd: "set-mark"}, Step{Cmd: rapid.SampledFrom([]string{"backward-word", "forward-word", "beginning-of-line", "end-of-line", "backward-char"}).Draw(t, "rmove")})
		case 1:
			c.Steps = append(c.Steps, Step{Cmd: "exchange-point-and-mark"})
		case 2:
			c.Steps = append(c.Steps, Step{Cmd: "exchange-point-and-mark"}, Step{Cmd: "exchange-point-and-mark"})
		case 3:
			c.Steps = append(c.Steps, Step{Cmd: "set-mark"}, Step{Cmd: "end-of-line"}, Step{Cmd: "exchange-point-and-mark"})
		default:
			if c.Mode == "vi" {
				c.Steps = append(c.Steps, Step{Cmd: "vi-movement-mode"}, Step{Cmd: "vi-visual-mode"}, Step{Cmd: rapid.SampledFrom([]string{"vi-backward-word", "vi-end-of-line", "vi-forward-char"}).Draw(t, "vmove")})
			} else {
				c.Steps = append(c.Steps, Step{Cmd: "select-in-word"})
			}
		}

		for i := rapid.IntRange(1, 3).Draw(t, "nshrink"); i > 0; i-- {
			c.Steps = append(c.Steps, Step{Cmd: rapid.SampledFrom([]string{"delete-char", "backward-delete-char", "kill-word", "backward-kill-word", "kill-line", "unix-line-discard",
				"undo", "previous-history", "next-history", "kill-whole-line", "vi-delete-to", "transpose-chars", "backward-kill-line"}).Draw(t, "shrink")})
		}
	}

	c.Cmd = rapid.SampledFrom(c06Commands).Draw(t, "cmd")

	// copies are few among the commands: give them a quarter of the cases
	if rapid.IntRange(0, 3).Draw(t, "copycase") == 0 {
		c.Cmd = rapid.SampledFrom([]string{"copy-region-as-kill", "copy-backward-word", "copy-forward-word", "vi-yank-whole-line", "vi-yank-to"}).Draw(t, "copycmd")
	}
	c.Count = rapid.SampledFrom([]string{"", "", "", "2", "3", "12", "0", "-", "-2", "999"}).Draw(t, "count")
	c.Arg = rapid.SampledFrom([]string{"a", "o", " ", "x", "(", "\"", "e", "日"}).Draw(t, "arg")
	c.Motion = rapid.SampledFrom([]string{"w", "b", "e", "$", "0", "l", "h", "iw", "aw"}).Draw(t, "motion")

	return c
}

// c06Invariant is clause (a) on one snapshot.
func c06Invariant(ev *proto.Event) *Failure {
	text := []rune(ev.Line)
	n := len(text)

	if ev.Pos < 0 || ev.Pos > n {
		return failf("cursor-range", "c06:cursor-range", "cursor %d outside the buffer of %d runes %q (keymaps %s/%s)", ev.Pos, n, ev.Line, ev.Main, ev.Local)
	}

	if (ev.Main == "vi-command" || ev.Main == "vi-move" || ev.Main == "vi") && ev.Local != "isearch" && n > 0 {
		p := ev.Pos
		emptyLine := (p == 0 && text[0] == '\n') || (p == n && text[n-1] == '\n') || (p > 0 && p < n && text[p] == '\n' && text[p-1] == '\n')

		if !emptyLine && (p >= n || text[p] == '\n') {
			return failf("vi-on-char", "c06:vi-not-on-character", "vi command mode (%s/%s): cursor %d is not on a character of %q (%d runes)", ev.Main, ev.Local, p, ev.Line, n)
		}
	}

	if ev.SelAct && !(ev.SelB == -1 && ev.SelE == -1) {
		if ev.SelB < 0 || ev.SelB > ev.SelE || ev.SelE > n {
			return failf("selection-range", "c06:selection-range", "active selection (%d,%d) outside the buffer of %d runes %q", ev.SelB, ev.SelE, n, ev.Line)
		}
	}

	return nil
}

func runC06(h *Harness, child *rig.Child, c *C06Case) (*Failure, bool) {
	e := h.env()
	spec := &proto.Spec{Calls: 1, Inputrc: renderVars(c.Mode, c.Vars), LogCmds: true, Multiline: c.Multiline, Prompt: &proto.PromptSpec{Primary: "> "},
		Binds: e.privateBinds(mainKeymaps...), Hist: []proto.HistSpec{{Kind: "mem", Name: "h", Entries: c.Hist}}}

	d := openDrive(h, child, spec, rig.SessionOpts{Cols: 80, Rows: 24})
	defer d.close()

	check := func(ev *proto.Event, ctx string) *Failure {
		if ev == nil || ev.Kind != "main" {
			return nil
		}

		if f := c06Invariant(ev); f != nil {
			f.Msg = ctx + ": " + f.Msg
			return f
		}

		return nil
	}

	if d.fail != nil {
		return d.fail, false
	}

	for i, s := range c.Steps {
		ev := d.send(s.bytes(e))
		if d.fail != nil {
			return d.fail, false
		}

		if ev == nil {
			return nil, false // the script ended the call: nothing more to observe
		}

		if f := check(ev, fmt.Sprintf("after step %d of script %s", i, notes(c.Steps[:i+1]))); f != nil {
			return f, true
		}
	}

	before := d.parks[len(d.parks)-1]

	// (c) only from a state at rest: no local keymap, no argument pending
	if before.Kind != "main" || before.Local != "" || before.Iter {
		return nil, false
	}

	count := c.Count
	viCmd := before.Main == "vi-command"

	if viCmd && (strings.HasPrefix(count, "-") || count == "0") {
		count = ""
	}

	// numeric arguments are typed M-<digit> in emacs and <digit> in vi command
	// mode; vi insert mode has no way to type one
	if before.Main != "emacs" && !viCmd {
		count = ""
	}

	reg := ""
	if viCmd && (strings.Contains(c.Cmd, "yank") || strings.HasPrefix(c.Cmd, "copy-")) {
		reg = c.Reg
	}

	if reg != "" {
		d.send([]byte("\""))
		d.send([]byte("a"))
	}

	if count != "" {
		if viCmd {
			d.send([]byte(count))
		} else {
			var sb strings.Builder
			for _, ch := range count {
				sb.WriteString("\x1b" + string(ch))
			}

			d.send([]byte(sb.String()))
		}
	}

	// a state that inserts the argument keys themselves (search minibuffer,
	// overwrite loop) is not at rest: nothing to judge
	if cur := d.parks[len(d.parks)-1]; d.fail == nil && (cur.Line != before.Line || cur.Local != "" || cur.Kind != "main") {
		return nil, false
	}

	ev := d.send([]byte(e.key(c.Cmd)))

	// (c) is about the command: if the keys did not run it (a minibuffer that
	// inserts every key, an overwrite loop ...) there is nothing to judge
	ran := false

	for _, n := range cmdsOf(d.st) {
		if n == c.Cmd {
			ran = true
		} else {
			// keys that were still pending as the prefix of a longer sequence
			// (ESC O in vi insert mode ...) resolved into other commands in this
			// very read: what changed the buffer cannot be attributed
			return nil, false
		}
	}

	if d.fail == nil && !ran {
		return nil, false
	}

	if d.fail != nil {
		d.fail.Msg = fmt.Sprintf("command %s (count %q) on %q at %d: %s", c.Cmd, count, before.Line, before.Pos, d.fail.Msg)
		return d.fail, true
	}

	if ev != nil && ev.Kind == "arg" {
		ev = d.send([]byte(c.Arg))
	}

	if ev != nil && c.Cmd == "vi-yank-to" && ev.Local == "vi-opp" {
		for _, r := range c.Motion {
			if ev = d.send([]byte(string(r))); ev == nil {
				break
			}
		}
	}

	if d.fail != nil {
		d.fail.Msg = fmt.Sprintf("command %s (count %q) on %q at %d: %s", c.Cmd, count, before.Line, before.Pos, d.fail.Msg)
		return d.fail, true
	}

	if ev == nil {
		return nil, false
	}

	ctx := fmt.Sprintf("%s (count %q, arg %q) on %q at %d in %s", c.Cmd, count, c.Arg, before.Line, before.Pos, before.Main)

	if ev.Line != before.Line {
		return failf("movement-edits", "c06:edits:"+c.Cmd, "%s changed the buffer to %q", ctx, ev.Line), true
	}

	if f := check(ev, "after "+ctx); f != nil {
		f.Sig += ":" + c.Cmd
		return f, true
	}

	// once more, appending to the same named register: still a copy
	if reg == "aA" && ev.Kind == "main" && ev.Local == "" && ev.Main == "vi-command" {
		d.send([]byte("\""))
		d.send([]byte("A"))
		ev2 := d.send([]byte(e.key(c.Cmd)))

		if ev2 != nil && c.Cmd == "vi-yank-to" && ev2.Local == "vi-opp" {
			for _, r := range c.Motion {
				if ev2 = d.send([]byte(string(r))); ev2 == nil {
					break
				}
			}
		}

		if d.fail != nil {
			d.fail.Msg = fmt.Sprintf("command \"A %s after \"a %s on %q at %d: %s", c.Cmd, c.Cmd, before.Line, before.Pos, d.fail.Msg)
			return d.fail, true
		}

		if ev2 == nil {
			return nil, true
		}

		if ev2.Line != before.Line {
			return failf("movement-edits", "c06:edits:"+c.Cmd, "%s, then the same command appending to register A, changed the buffer to %q", ctx, ev2.Line), true
		}

		if f := check(ev2, "after the appending copy following "+ctx); f != nil {
			f.Sig += ":" + c.Cmd
			return f, true
		}

		ev = ev2
	}

	nontrivial := count != "" || viCmd || strings.Contains(before.Line, "\n") || hasNonASCII(before.Line)

	// (b) accept as its own read
	if ev.Local != "" {
		if ev = d.send([]byte("\x1b")); ev == nil {
			return d.fail, nontrivial
		}
	}

	if ev.Kind != "main" || ev.Local != "" {
		return nil, nontrivial
	}

	last := ev
	d.send([]byte(e.key("accept-line")))

	if d.fail != nil {
		return d.fail, nontrivial
	}

	if d.st.Kind == "return" && !d.st.Ev.HasErr {
		if d.st.Ev.Line != last.Line {
			return failf("returned-is-buffer", "c06:returned-differs", "accept-line returned %q but the buffer at the preceding wait was %q", d.st.Ev.Line, last.Line), true
		}
	}

	return nil, nontrivial
}

func TestC06(t *testing.T) {
	var e *Env

	nt := map[*C06Case]bool{}

	runProp(t, propDef{
		id: "C06", check: "cursorinv", rule: c06Rule,
		setup:   func(h *Harness) { e = h.env() },
		newCase: func() any { return new(C06Case) },
		gen:     func(rt *rapid.T) any { return genC06(rt, e) },
		classify: func(h *Harness, x any) bool {
			c := x.(*C06Case)
			v := nt[c]
			delete(nt, c)
			h.class("mode-" + c.Mode)
			h.class("cmd:" + c.Cmd)

			return v
		},
		run: func(h *Harness, child *rig.Child, x any) *Failure {
			c := x.(*C06Case)
			f, v := runC06(h, child, c)
			nt[c] = v

			return f
		},
	})
}
