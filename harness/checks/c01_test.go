package checks

import (
	"fmt"
	"os"
	"regexp"
	"strings"
	"testing"

	"pgregory.net/rapid"

	"verif/harness/proto"
	"verif/harness/rig"
)

var c01ArgHint = regexp.MustCompile(`\(arg: -?(\d{1,9})`)

// C01 — Readline never crashes, spins or deadlocks on any keyboard input.

const c01Rule = "sessions = configuration (editing mode, 0-6 generated variable settings incl. the library's own, 0-2 history sources from a pool, optional completer with descriptions/tags, multiline rule, terminal 8..200 x 3..60, prompt) + script of 1-60 (thorough 120) key tokens from the full alphabet (text incl. multi-byte, every C0 control, DEL, ESC-prefixed keys, CSI/SS3 sequences, EVERY registered command by name on a private sequence, argument-reading commands, digit arguments, vi operator/motion/text-object keys, raw 0x80-0xFF bytes and truncated UTF-8) under a generated chunking, 1-3 consecutive Readline calls, optionally an injected EOF or I/O error (one-shot or persistent) at a generated park, main-loop or mid-command; oracle: no panic, no fatal error, no watchdog expiry; after the last step the call has returned or is parked waiting for input; after a persistent fault the call returns within 12000 further reads (numeric arguments make some commands read a key that many times) (count-based spin detection); non-trivial = ran a command other than self-insert/accept-line, or left the main keymap, or contains a fault; distinct = hash of the case"

type C01Case struct {
	Mode      string          `json:"mode"`
	Vars      [][2]string     `json:"vars,omitempty"`
	Hist      [][]string      `json:"hist,omitempty"`
	Comp      *proto.CompSpec `json:"comp,omitempty"`
	Multiline string          `json:"multiline,omitempty"`
	Cols      int             `json:"cols"`
	Rows      int             `json:"rows"`
	Prompt    string          `json:"prompt"`
	Calls     int             `json:"calls"`
	Steps     []Step          `json:"steps"`
	Merge     []bool          `json:"merge,omitempty"` // Merge[i]: step i is delivered in the same read as step i+1
	Persist   bool            `json:"persist,omitempty"`

	obs *c01Obs
}

func genCompSpec(t *rapid.T) *proto.CompSpec {
	pools := [][]proto.Cand{
		{{Value: "foo"}, {Value: "foobar"}, {Value: "food"}, {Value: "bar"}, {Value: "baz"}},
		{{Value: "alpha", Desc: "first"}, {Value: "beta", Desc: "second"}, {Value: "gamma", Desc: "second"}, {Value: "delta"}},
		{{Value: "--flag", Tag: "flags"}, {Value: "--force", Tag: "flags", Desc: "force it"}, {Value: "file.txt", Tag: "files"}, {Value: "file2.txt", Tag: "files"}, {Value: "dir/", Tag: "files"}},
		{{Value: "unique"}},
		{},
		{{Value: "日本"}, {Value: "日本語"}, {Value: "한글"}},
	}

	cs := &proto.CompSpec{Cands: rapid.SampledFrom(pools).Draw(t, "cands"), Mode: rapid.SampledFrom([]string{"word", "prefix"}).Draw(t, "compmode")}
	if rapid.IntRange(0, 3).Draw(t, "many") == 0 {
		for i := 0; i < 60; i++ {
			cs.Cands = append(cs.Cands, proto.Cand{Value: fmt.Sprintf("cand%02d", i), Desc: []string{"", "desc", "shared"}[i%3]})
		}
	}

	cs.List = rapid.Bool().Draw(t, "list")
	cs.NoSpace = rapid.SampledFrom([]string{"", "", "/", "*"}).Draw(t, "nospace")
	cs.Usage = rapid.SampledFrom([]string{"", "", "usage text"}).Draw(t, "usage")
	cs.Message = rapid.SampledFrom([]string{"", "", "a message"}).Draw(t, "message")

	return cs
}

func genC01(t *rapid.T, e *Env) *C01Case {
	c := &C01Case{Mode: rapid.SampledFrom([]string{"emacs", "emacs", "vi"}).Draw(t, "mode")}
	c.Vars = genVars(t, 6)

	for i := rapid.IntRange(0, 2).Draw(t, "nhist"); i > 0; i-- {
		c.Hist = append(c.Hist, genHist(t))
	}

	if rapid.IntRange(0, 2).Draw(t, "hascomp") > 0 {
		c.Comp = genCompSpec(t)
	}

	c.Multiline = rapid.SampledFrom([]string{"", "", "backslash", "quotes"}).Draw(t, "multiline")
	c.Cols = rapid.SampledFrom([]int{8, 10, 20, 40, 80, 80, 120, 200}).Draw(t, "cols")
	c.Rows = rapid.SampledFrom([]int{3, 5, 10, 24, 24, 60}).Draw(t, "rows")
	c.Prompt = rapid.SampledFrom([]string{"> ", "", "$ ", "\x1b[32mgreen\x1b[0m> ", "line1\nline2> ", "日本> ", "a-very-long-prompt-string >>> "}).Draw(t, "prompt")
	c.Calls = rapid.SampledFrom([]int{1, 1, 2, 3}).Draw(t, "calls")

	maxSteps := 60
	if thorough() {
		maxSteps = 120
	}

	c.Steps = genScript(t, e, 1, maxSteps*2/3)

	// chunking: which steps ride in the same read as their successor
	switch rapid.IntRange(0, 3).Draw(t, "chunking") {
	case 0: // one token per read
	case 1: // everything in one read ("paste"), bounded by the library's read size
		c.Merge = make([]bool, len(c.Steps))
		for i := range c.Merge {
			c.Merge[i] = true
		}
	default:
		c.Merge = rapid.SliceOfN(rapid.Bool(), len(c.Steps), len(c.Steps)).Draw(t, "merge")
	}

	// faults
	if rapid.IntRange(0, 2).Draw(t, "hasfault") == 0 {
		at := rapid.IntRange(0, len(c.Steps)).Draw(t, "faultat")
		kind := rapid.SampledFrom([]string{"eof", "ioerr"}).Draw(t, "faultkind")
		c.Persist = rapid.Bool().Draw(t, "persist")
		steps := append([]Step{}, c.Steps[:at]...)
		steps = append(steps, Step{Fault: kind})
		c.Steps = append(steps, c.Steps[at:]...)

		if c.Merge != nil {
			m := append([]bool{}, c.Merge[:at]...)
			m = append(m, false)
			c.Merge = append(m, c.Merge[at:]...)
		}
	}

	return c
}

func (c *C01Case) spec(e *Env) *proto.Spec {
	spec := &proto.Spec{Calls: c.Calls, Inputrc: renderVars(c.Mode, c.Vars), LogCmds: true, Multiline: c.Multiline,
		Prompt: &proto.PromptSpec{Primary: c.Prompt}, Completer: c.Comp, Binds: e.privateBinds(mainKeymaps...)}

	for i, hl := range c.Hist {
		kind := []string{"mem", "rec"}[i%2]
		spec.Hist = append(spec.Hist, proto.HistSpec{Kind: kind, Name: fmt.Sprintf("h%d", i), Entries: hl})
	}

	return spec
}

type c01Obs struct {
	cmds     map[string]int
	keymaps  map[string]bool
	argParks int
	faults   int
	returned int
}

func runC01(h *Harness, child *rig.Child, c *C01Case, obs *c01Obs) *Failure {
	e := h.env()
	s, st := child.Start(c.spec(e), rig.SessionOpts{Cols: c.Cols, Rows: c.Rows})

	defer func() {
		h.Sessions++
		h.Keys += s.Keys
		s.Finish()
	}()

	lastArg := 0   // numeric argument shown by the hint at the last wait of the main loop
	lastMain := -1 // index of the step after which that wait happened
	whole := map[int]bool{}
	curStep := -1

	note := func(st *rig.Stop) {
		if st.Kind == "park" && st.Ev != nil && st.Ev.Kind == "main" {
			lastArg = 0
			lastMain = curStep

			if m := c01ArgHint.FindStringSubmatch(st.Ev.Hint); m != nil {
				fmt.Sscan(m[1], &lastArg)
			}
		}

		if os.Getenv("VERIF_TRACE") != "" {
			names := []string{}
			for _, ev := range st.Cmds {
				names = append(names, ev.Ev+":"+ev.Name+"("+fmt.Sprintf("%q", ev.Caller)+")")
			}

			fmt.Printf("TRACE %s cmds=%v\n", st, names)
		}

		if obs == nil {
			return
		}

		for _, ev := range st.Cmds {
			if ev.Ev == "cmd" {
				obs.cmds[ev.Name]++
			}
		}

		if st.Kind == "park" {
			obs.keymaps[st.Ev.Main] = true

			if st.Ev.Local != "" {
				obs.keymaps[st.Ev.Local] = true
			}

			if st.Ev.Kind == "arg" {
				obs.argParks++
			}

			if st.Ev.Rec {
				obs.keymaps["recording"] = true
			}

			if st.Ev.Iter {
				obs.keymaps["iterations"] = true
			}
		}

		if st.Kind == "return" && obs != nil {
			obs.returned++
		}
	}

	ctx := func(i int) string {
		lo := i - 6
		if lo < 0 {
			lo = 0
		}

		return fmt.Sprintf("at step %d of %d; last steps: %s", i, len(c.Steps), notes(c.Steps[lo:min(i+1, len(c.Steps))]))
	}

	note(st)

	if f := stopFailure(st); f != nil {
		f.Msg = "at session start: " + f.Msg
		return f
	}

	faulted := false

	for i := 0; i < len(c.Steps); i++ {
		// between calls: wait for the next call's first park
		for st.Kind == "return" {
			st = s.Next()
			note(st)

			if f := stopFailure(st); f != nil {
				f.Msg = ctx(i) + ": " + f.Msg
				return f
			}
		}

		if st.Kind != "park" {
			break // session over (all calls returned)
		}

		step := c.Steps[i]
		curStep = i

		if step.Fault != "" {
			faulted = true

			if obs != nil {
				obs.faults++
			}

			st = s.Fault(step.Fault)
			note(st)

			if f := stopFailure(st); f != nil {
				f.Msg = fmt.Sprintf("after injected %s, %s: %s", step.Fault, ctx(i), f.Msg)
				f.Sig += ":after-" + step.Fault

				return f
			}

			if c.Persist {
				// the terminal stays dead: every further read fails the same way
				// A command may legitimately read once per repetition of its numeric
				// argument: the bound is above any argument the script can have typed.
				n, limit, maxArg := 0, 1000, lastArg

				// digits typed since that wait (also inside sequences a command
				// read key by key) may have become an argument meanwhile
				for si, sp := range c.Steps[:i] {
					if si <= lastMain || whole[si] {
						continue
					}

					val := 0

					for _, b := range sp.bytes(e) {
						if b >= '0' && b <= '9' {
							if val < 100000000 {
								val = val*10 + int(b-'0')
							}
						} else if b != 0x1b {
							val = 0
						}

						if val > maxArg {
							maxArg = val
						}
					}
				}

				if maxArg > 9999999 {
					maxArg = 9999999
				}

				if 2*maxArg+100 > limit {
					limit = 2*maxArg + 100
				}

				// beyond what the harness can afford to wait for, the case decides nothing
				inconclusive := limit > 12000
				if inconclusive {
					limit = 12000
				}

				for st.Kind == "park" {
					n++
					if n > limit && inconclusive {
						return &Failure{Clause: "discard", Msg: fmt.Sprintf("numeric argument %d: more failing reads than the harness waits for", maxArg)}
					}

					if n > limit {
						stack := rig.LibraryStack(child.Stacks())
						return failf("spin", "spin:persistent-"+step.Fault+":"+hangSite(stack), "after a persistent %s the call neither returned nor stopped reading: %d further reads were each answered with the same fault and followed by another read (%s); last park %s\n%s",
							step.Fault, n, ctx(i), st, head(stack, 2500))
					}

					st = s.Fault(step.Fault)
					note(st)

					if f := stopFailure(st); f != nil {
						f.Msg = fmt.Sprintf("after persistent %s (read %d), %s: %s", step.Fault, n, ctx(i), f.Msg)
						f.Sig += ":after-" + step.Fault

						return f
					}
				}

				// returned: a dead terminal ends the session
				break
			}

			continue
		}

		start := i
		data := step.bytes(e)

		for c.Merge != nil && i < len(c.Merge) && c.Merge[i] && i+1 < len(c.Steps) && c.Steps[i+1].Fault == "" && len(data)+len(c.Steps[i+1].bytes(e)) <= 900 {
			i++
			data = append(data, c.Steps[i].bytes(e)...)
		}

		if len(data) == 0 {
			continue
		}

		st = s.Send(data)
		note(st)

		// a step whose own command is in the log was dispatched as a whole: the
		// digits of its key sequence did not become a numeric argument
		if start == i && (c.Steps[i].Note != "" || c.Steps[i].Cmd != "") {
			for _, ev := range st.Cmds {
				if ev.Ev == "cmd" && (ev.Name == c.Steps[i].Note || ev.Name == c.Steps[i].Cmd) {
					whole[i] = true
				}
			}
		}

		if f := stopFailure(st); f != nil {
			f.Msg = ctx(i) + ": " + f.Msg

			if faulted {
				f.Sig += ":after-fault"
			}

			return f
		}
	}

	// (b) after the last step the call has returned or is parked: anything else
	// was already turned into a failure by stopFailure (hang / died).
	return nil
}

func TestC01(t *testing.T) {
	var e *Env

	runProp(t, propDef{
		id: "C01", check: "crashfree", rule: c01Rule,
		newCase: func() any { return new(C01Case) },
		gen: func(rt *rapid.T) any {
			return genC01(rt, e)
		},
		setup: func(h *Harness) { e = h.env() },
		classify: func(h *Harness, x any) bool {
			c := x.(*C01Case)
			obs := c.obs

			if obs == nil {
				return false
			}

			for km := range obs.keymaps {
				h.class("reached-" + km)
			}

			if obs.argParks > 0 {
				h.class("reached-argument-read")
			}

			if obs.faults > 0 {
				h.class("with-fault")
			}

			if obs.returned > 1 {
				h.class("several-calls-returned")
			}

			other := 0

			for n := range obs.cmds {
				if n != "self-insert" && n != "accept-line" {
					other++
				}
			}

			h.classN("distinct-commands-run", len(obs.cmds))

			if strings.Contains(c.Mode, "vi") {
				h.class("vi-mode")
			}

			return other > 0 || obs.faults > 0 || len(obs.keymaps) > 1
		},
		run: func(h *Harness, child *rig.Child, x any) *Failure {
			c := x.(*C01Case)
			c.obs = &c01Obs{cmds: map[string]int{}, keymaps: map[string]bool{}}

			return runC01(h, child, c, c.obs)
		},
	})
}
