package checks

import (
	"fmt"
	"os"
	"strings"
	"testing"
	"unicode"

	"pgregory.net/rapid"

	"verif/harness/proto"
	"verif/harness/rig"
)

// C04 — the terminal shows exactly the buffer, cursor on the right cell.

const c04Rule = "sessions of real editing on terminals 8-120 columns wide (biased to narrow): typed ASCII / accented / CJK wide / combining text, fills to k*W-p+{-2..1} (rows exactly filled), recalls of prepared history entries (wide, combining, TABs, multi-line, long), quoted TABs, cursor movements, kills, deletes, undo, yanks, clear-screen, vi command mode, and completion menus / incremental searches opened, used and closed (their own frames are not modelled, but the rows they painted must be blank again in the frame after); at every wait of the main loop with no helper open the emulated screen (fed with every byte the library wrote) is compared with an independent layout of (prompt last line, buffer, cursor index, width): prompt cells, every buffer cell incl. combining marks, every other cell of the input rows blank, rows of a taller previous frame blank, terminal cursor on the cursor's cell; a frame is wrong only if wrong under both erase-at-margin interpretations; non-trivial = session with a frame that has a soft-wrapped row, an embedded newline, a non-ASCII rune, an exactly filled row, or fewer rows than the frame before; distinct = hash of the case"

type C04Step struct {
	Kind  string `json:"kind"` // type | fill | cmd | hist | menu | isearch (Text = keys joined by "|")
	Text  K      `json:"text,omitempty"`
	Cmd   string `json:"cmd,omitempty"`
	Count int    `json:"count,omitempty"`
	K     int    `json:"k,omitempty"`
	D     int    `json:"d,omitempty"`
}

type C04Case struct {
	Mode   string      `json:"mode"` // emacs | vi
	Cols   int         `json:"cols"`
	Rows   int         `json:"rows"`
	Start  int         `json:"startrow"`
	Prompt string      `json:"prompt"`
	Hist   []string    `json:"hist"`
	Vars   [][2]string `json:"vars,omitempty"`
	Steps  []C04Step   `json:"steps"`
}

var c04Hist = []string{
	"echo hello world",
	"日本語のコマンド 漢字かな交じり文",
	"élève café naïve",
	"a\tb\tc",
	"first\nsecond line\nthird",
	"0123456789abcdefghijklmnopqrstuvwxyz0123456789ABCDEFGHIJKLMNOPQRSTUVWXYZ0123456789abcdefghijklmnopqrstuvwxyz",
	"ab日本cd한글ef",
	"line one is rather long and will wrap on small terminals\nshort",
	"😀 emoji 😀😀",
	"x\n日本語 second\n\nlast",
	"é\nñ ü\nz",
	"short",
	"",
}

var c04Cmds = []string{
	"beginning-of-line", "end-of-line", "backward-char", "forward-char", "backward-word", "forward-word",
	"kill-line", "backward-kill-line", "kill-word", "backward-kill-word", "backward-delete-char", "delete-char",
	"undo", "yank", "kill-whole-line", "transpose-chars", "clear-screen", "previous-history", "next-history",
	"beginning-of-history", "end-of-history", "up-line-or-history", "down-line-or-history",
	"vi-movement-mode", "vi-insertion-mode", "vi-append-mode", "vi-forward-word", "vi-backward-word", "vi-end-word",
	"vi-delete", "vi-first-print", "vi-end-of-line", "vi-open-line-below", "vi-open-line-above", "vi-put-after", "vi-kill-eol", "up-case-word", "redo", "overwrite-mode",
	"beginning-of-buffer-or-history", "end-of-buffer-or-history", "redraw-current-line", "clear-display",
}

var c04Runes = []rune("abcdefgh xyz01 .-/日本語한é ü😀́")

func genC04(t *rapid.T) *C04Case {
	c := &C04Case{Mode: rapid.SampledFrom([]string{"emacs", "emacs", "vi"}).Draw(t, "mode")}
	c.Cols = rapid.SampledFrom([]int{8, 10, 12, 16, 20, 20, 24, 33, 40, 80, 120}).Draw(t, "cols")
	c.Rows = rapid.SampledFrom([]int{12, 24, 40}).Draw(t, "rows")
	c.Start = rapid.SampledFrom([]int{0, 0, 3, c.Rows - 2, c.Rows + 5}).Draw(t, "start")

	prompts := []string{"> ", "$ ", "\x1b[32mok\x1b[0m> ", "first line\nsecond> ", "", "%", "日本> ", "a-rather-long-prompt-text $ "}
	for {
		c.Prompt = rapid.SampledFrom(prompts).Draw(t, "prompt")
		if rig.StringWidth(stripSGR(lastLine(c.Prompt))) <= c.Cols-2 {
			break
		}
	}

	nh := rapid.IntRange(0, 5).Draw(t, "nhist")
	for i := 0; i < nh; i++ {
		c.Hist = append(c.Hist, rapid.SampledFrom(c04Hist).Draw(t, "h"))
	}

	for i, n := 0, rapid.IntRange(0, 2).Draw(t, "nvars"); i < n; i++ {
		c.Vars = append(c.Vars, [2]string{rapid.SampledFrom([]string{"show-mode-in-prompt", "multiline-column", "multiline-column-numbered", "usage-hint-always", "blink-matching-paren", "enable-bracketed-paste", "horizontal-scroll-mode", "mark-modified-lines"}).Draw(t, "var"), rapid.SampledFrom([]string{"on", "off"}).Draw(t, "val")})
	}

	n := rapid.IntRange(1, 14).Draw(t, "nsteps")
	for i := 0; i < n; i++ {
		var s C04Step

		switch rapid.IntRange(0, 10).Draw(t, "kind") {
		case 10:
			// a completion menu or an incremental search opened, used and closed
			s.Kind = rapid.SampledFrom([]string{"menu", "menu", "isearch"}).Draw(t, "helper")
			keys := []string{}

			if s.Kind == "menu" {
				for j := rapid.IntRange(0, 4).Draw(t, "nmenu"); j > 0; j-- {
					keys = append(keys, rapid.SampledFrom([]string{"\t", "\x1b[Z", "\x1b[B", "\x1b[A", "\x1b[C"}).Draw(t, "menukey"))
				}

				keys = append(keys, rapid.SampledFrom([]string{"ABORT", "\x1b", "\x03", " ", "x"}).Draw(t, "menuend"))
			} else {
				for j := rapid.IntRange(0, 3).Draw(t, "nis"); j > 0; j-- {
					keys = append(keys, rapid.SampledFrom([]string{"e", "o", "l", "\x12"}).Draw(t, "iskey"))
				}

				keys = append(keys, rapid.SampledFrom([]string{"ABORT", "\x1b"}).Draw(t, "isend"))
			}

			s.Text = enc([]byte(strings.Join(keys, "|")))
		case 0, 1:
			s.Kind = "type"
			s.Text = enc([]byte(string(rapid.SliceOfN(rapid.SampledFrom(c04Runes), 1, 12).Draw(t, "text"))))
		case 2, 3:
			s.Kind = "fill"
			s.K = rapid.IntRange(1, 3).Draw(t, "k")
			s.D = rapid.IntRange(-2, 1).Draw(t, "d")
		case 4:
			s.Kind = "hist"
			s.Count = rapid.IntRange(1, 3).Draw(t, "n")
		case 5:
			s.Kind = "cmd"
			s.Cmd = "quoted-tab"
		default:
			s.Kind = "cmd"
			s.Cmd = rapid.SampledFrom(c04Cmds).Draw(t, "cmd")
			s.Count = rapid.SampledFrom([]int{0, 0, 0, 2, 3, 7}).Draw(t, "count")
		}

		c.Steps = append(c.Steps, s)
	}

	return c
}

type c04Frame struct {
	wrapped, newline, nonASCII, filled, shrunk bool
}

func c04Unprintable(s string) bool {
	for _, r := range s {
		if r == '\n' || r == '\t' {
			continue
		}

		if unicode.IsControl(r) || !unicode.IsPrint(r) && !unicode.Is(unicode.Mn, r) {
			return true
		}
	}

	return false
}

func runC04(h *Harness, child *rig.Child, c *C04Case) (*Failure, bool) {
	e := h.env()
	names := append([]string{"quoted-insert"}, c04Cmds...)
	vars := append([][2]string{{"convert-meta", "off"}, {"input-meta", "on"}, {"output-meta", "on"}}, c.Vars...)
	spec := &proto.Spec{Calls: 1, Inputrc: renderVars(c.Mode, vars), Prompt: &proto.PromptSpec{Primary: c.Prompt},
		Binds: e.bindNames(names, mainKeymaps...),
		Hist:  []proto.HistSpec{{Kind: "mem", Name: "h", Entries: c.Hist}}}

	for _, st := range c.Steps {
		if st.Kind == "menu" {
			cands := []proto.Cand{}
			for i := 0; i < 14; i++ {
				cd := proto.Cand{Value: fmt.Sprintf("cand%02d", i)}
				if i%3 == 0 {
					cd.Desc = fmt.Sprintf("description of %d", i)
				}

				cands = append(cands, cd)
			}

			spec.Completer = &proto.CompSpec{Cands: cands, Mode: "word"}
			spec.Binds = append(spec.Binds, e.bindNames([]string{"menu-complete", "abort"}, mainKeymaps...)...)

			break
		}
	}

	d := openDrive(h, child, spec, rig.SessionOpts{Cols: c.Cols, Rows: c.Rows, StartRow: c.Start, KeepScreens: true})
	defer d.close()

	if d.fail != nil {
		return d.fail, false
	}

	var (
		nt         bool
		tabs       = []int{1, 2, 3, 4, 5, 6, 7, 8}
		prevBottom = -1 // screen row of the last input row of the previous frame
		prevScroll = 0
		showMode   = false
		modeStr    = map[string]string{"emacs": "@", "vi-insert": "(ins)", "vi-command": "(cmd)"}
	)

	for _, v := range c.Vars {
		if v[0] == "show-mode-in-prompt" {
			showMode = v[1] == "on"
		}
	}

	helperSteps := false

	for _, st := range c.Steps {
		if st.Kind == "menu" || st.Kind == "isearch" {
			helperSteps = true
		}
	}

	check := func(step string) *Failure {
		st := d.st
		ev := st.Ev

		if st.Kind != "park" {
			return nil
		}

		if os.Getenv("VERIF_TRACE") != "" {
			fmt.Printf("TRACE %s: line=%q pos=%d main=%s local=%s kind=%s cursor=(%d,%d)\n", step, ev.Line, ev.Pos, ev.Main, ev.Local, ev.Kind, st.X.Row, st.X.Col)
		}

		if ev.Kind != "main" || ev.Local != "" || strings.Contains(ev.Hint, "-search)") {
			h.classN("frames-skipped-helper", 1)

			// What a helper (completion menu, search minibuffer and its hint) shows
			// is not modelled, but how far down it painted is remembered: once the
			// helper is closed those rows are rows of "a taller previous frame" and
			// must be blank again (no remnants of earlier content).
			prevBottom = -1

			if helperSteps {
				for r := st.X.H - 1; r >= 0; r-- {
					if !rowBlank(st.X, r) {
						prevBottom, prevScroll = r, st.X.Scrolled
						break
					}
				}
			}

			return nil
		}

		buf := []rune(ev.Line)
		prompt := stripSGR(lastLine(c.Prompt))

		if showMode {
			prompt = modeStr[ev.Main] + prompt
		}

		pw := rig.StringWidth(prompt)
		if pw > c.Cols-2 {
			h.classN("frames-skipped-wide-prompt", 1)
			return nil
		}

		var (
			okTabs  []int
			first   string
			firstIn string // first message of a variant whose cursor column was right
			padMsg  string
			lay     *Layout
			r0      int
		)

		hasTab := strings.ContainsRune(ev.Line, '\t')
		try := tabs

		if !hasTab {
			try = tabs[:1]
		}

		for _, n := range try {
			l := layoutBuffer(c.Cols, pw, buf, ev.Pos, n)

			// taller than the screen: not in the domain
			if l.EndRow+2+strings.Count(c.Prompt, "\n") >= c.Rows {
				h.classN("frames-skipped-too-tall", 1)
				prevBottom = -1

				return nil
			}

			msg := ""
			curs := []cellPos{l.Cur}

			if l.CurAlt != nil {
				curs = append(curs, *l.CurAlt)
			}

		screens:
			for _, scr := range []*rig.Screen{st.X, st.V} {
				for _, cur := range curs {
					msg = ""
					pad := ""
					row0 := scr.Row - cur.R
					pe := -1

					if prevBottom >= 0 {
						pe = prevBottom - (scr.Scrolled - prevScroll) - row0
					}

					if scr.Col != cur.C {
						msg = fmt.Sprintf("the terminal cursor is in column %d, the buffer cursor (index %d) belongs in column %d", scr.Col, ev.Pos, cur.C)
					} else {
						msg = checkFrame(scr, row0, prompt, l, pe, ev.Hint == "", &pad)

						if msg != "" && firstIn == "" {
							firstIn = msg
						}
					}

					if msg == "" {
						lay, r0, padMsg = l, row0, pad
						break screens
					}

					if first == "" {
						first = msg
					}
				}
			}

			if msg == "" {
				okTabs = append(okTabs, n)
			}
		}

		if firstIn != "" {
			first = firstIn
		}

		if os.Getenv("VERIF_TRACE") != "" {
			fmt.Printf("TRACE   -> okTabs=%v first=%q\n", okTabs, first)
		}

		if len(okTabs) == 0 {
			kind := "ascii"

			switch {
			case strings.ContainsRune(ev.Line, '\n'):
				kind = "multiline:plain"
				lines := strings.Split(ev.Line, "\n")

				for i, ln := range lines {
					tw := pw + rig.StringWidth(strings.ReplaceAll(ln, "\t", "     "))

					switch {
					case pw < 2:
						kind = "multiline:narrow-prompt"
					case tw > c.Cols:
						kind = "multiline:wrapped-line"
					case tw == c.Cols && i < len(lines)-1 && kind == "multiline:plain":
						kind = "multiline:filled-line"
					}
				}
			case hasTab:
				kind = "tab"
			default:
				for _, r := range buf {
					if rig.RuneWidth(r) == 2 {
						kind = "wide"
						break
					} else if r > 0x7e {
						kind = "nonascii"
					}
				}
			}

			return failf("frame", "c04:frame:"+kind, "after %s on a %dx%d terminal with prompt %q the screen does not show buffer %q with the cursor at index %d: %s\n%s", step, c.Cols, c.Rows, prompt, ev.Line, ev.Pos, first, strings.Join(st.X.Dump(), "\n"))
		}

		if hasTab {
			tabs = okTabs
		}

		if padMsg != "" {
			return failf("frame", "c04:wide-pad-remnant", "after %s on a %dx%d terminal with prompt %q, buffer %q: %s\n%s", step, c.Cols, c.Rows, prompt, ev.Line, padMsg, strings.Join(st.X.Dump(), "\n"))
		}

		h.classN("frames-checked", 1)

		fr := c04Frame{}
		fr.wrapped = lay.EndRow > strings.Count(ev.Line, "\n")
		fr.newline = strings.ContainsRune(ev.Line, '\n')
		fr.filled = lay.Filled
		bottom := r0 + lay.EndRow
		fr.shrunk = prevBottom >= 0 && bottom < prevBottom-(st.X.Scrolled-prevScroll)

		for _, r := range buf {
			if r > 0x7e {
				fr.nonASCII = true
			}
		}

		for name, v := range map[string]bool{"frame-wrapped": fr.wrapped, "frame-newline": fr.newline, "frame-nonascii": fr.nonASCII, "frame-filled-row": fr.filled, "frame-shrunk": fr.shrunk, "frame-tab": hasTab} {
			if v {
				h.classN(name, 1)
				nt = true
			}
		}

		prevBottom, prevScroll = bottom, st.X.Scrolled

		return nil
	}

	// Frames that fail with one of the two recorded findings do not end the
	// session: the finding is reported at the end unless something else fails.
	var pending *Failure

	rawCheck := check
	check = func(step string) *Failure {
		f := rawCheck(step)
		if f != nil && (f.Sig == "c04:wide-pad-remnant" || f.Sig == "c04:frame:multiline:narrow-prompt") {
			h.classN("frames-with-recorded-finding", 1)

			if pending == nil {
				pending = f
			}

			prevBottom = -1

			return nil
		}

		return f
	}

	if f := check("the start"); f != nil {
		return f, nt
	}

	for i, s := range c.Steps {
		if d.fail != nil || d.st.Kind != "park" {
			break
		}

		cur := d.st.Ev
		desc := ""

		switch s.Kind {
		case "type":
			txt := string(s.Text.dec())
			desc = fmt.Sprintf("typing %q", txt)

			if cur.Main == "vi-command" {
				continue
			}

			for _, r := range txt {
				d.send([]byte(string(r)))

				if f := check(fmt.Sprintf("step %d (%s, at %q)", i, desc, string(r))); f != nil {
					return f, nt
				}
			}

			continue
		case "fill":
			if cur.Main == "vi-command" || cur.Local != "" {
				continue
			}

			pw := rig.StringWidth(stripSGR(lastLine(c.Prompt)))
			last := cur.Line

			if j := strings.LastIndex(last, "\n"); j >= 0 {
				last = last[j+1:]
			}

			have := pw + rig.StringWidth(strings.ReplaceAll(last, "\t", "     "))
			need := s.K*c.Cols + s.D - have

			for need < 0 {
				need += c.Cols
			}

			if need > 3*c.Cols {
				need = 3 * c.Cols
			}

			desc = fmt.Sprintf("typing %d more characters", need)

			for j := 0; j < need; j++ {
				d.send([]byte{"0123456789"[j%10]})

				if j >= need-3 {
					if f := check(fmt.Sprintf("step %d (%s, %d typed)", i, desc, j+1)); f != nil {
						return f, nt
					}
				}
			}

			continue
		case "menu", "isearch":
			// a helper is opened, used and closed: the frames while it is open are
			// skipped, the frame after it must show the buffer and nothing else
			if cur.Main == "vi-command" || cur.Local != "" {
				continue
			}

			keys := []string{}
			for _, k := range strings.Split(string(s.Text.dec()), "|") {
				if k != "" {
					keys = append(keys, k)
				}
			}

			desc = fmt.Sprintf("%s session %q", s.Kind, keys)

			if s.Kind == "menu" {
				d.send([]byte(e.key("menu-complete")))
			} else {
				d.send([]byte("\x12"))
			}

			for _, k := range keys {
				if d.st.Kind != "park" || d.st.Ev.Local == "" {
					break
				}

				if k == "ABORT" {
					k = e.key("abort")
				}

				d.send([]byte(k))

				// a key the helper does not know may be inserted as it is: control
				// characters in the buffer are outside this check's domain
				if d.st.Kind == "park" && c04Unprintable(d.st.Ev.Line) {
					return pending, nt
				}

				if f := check(fmt.Sprintf("step %d (%s, at %q)", i, desc, k)); f != nil {
					return f, nt
				}
			}

			if d.st.Kind == "park" && d.st.Ev.Local != "" {
				d.send([]byte(e.key("abort")))
			}

			if d.st.Kind == "park" && c04Unprintable(d.st.Ev.Line) {
				return pending, nt
			}

			if f := check(fmt.Sprintf("step %d (%s, closed)", i, desc)); f != nil {
				return f, nt
			}

			h.classN("helper-sessions", 1)

			continue
		case "hist":
			desc = fmt.Sprintf("%d x previous-history", s.Count)

			for j := 0; j < s.Count; j++ {
				d.send([]byte(e.key("previous-history")))

				if d.st.Kind == "park" && c04Unprintable(d.st.Ev.Line) {
					return pending, nt
				}

				if f := check(fmt.Sprintf("step %d (%s)", i, desc)); f != nil {
					return f, nt
				}
			}

			continue
		case "cmd":
			if s.Cmd == "quoted-tab" {
				if cur.Main == "vi-command" {
					continue
				}

				desc = "quoted-insert TAB"

				d.send([]byte(e.key("quoted-insert")))
				d.send([]byte("\t"))
			} else {
				desc = s.Cmd

				if s.Count > 0 && cur.Main != "vi-insert" {
					desc = fmt.Sprintf("%s with count %d", s.Cmd, s.Count)

					if cur.Main == "vi-command" {
						d.send([]byte(fmt.Sprint(s.Count)))
					} else {
						d.send([]byte(digitArg(s.Count)))
					}
				}

				d.send([]byte(e.key(s.Cmd)))
			}
		}

		if d.fail != nil {
			break
		}

		if d.st.Kind == "park" && c04Unprintable(d.st.Ev.Line) {
			return pending, nt
		}

		if f := check(fmt.Sprintf("step %d (%s)", i, desc)); f != nil {
			return f, nt
		}
	}

	if d.fail != nil {
		return d.fail, nt
	}

	return pending, nt
}

func TestC04(t *testing.T) {
	nt := map[*C04Case]bool{}

	runProp(t, propDef{
		id: "C04", check: "screen", rule: c04Rule,
		setup:   func(h *Harness) { h.env() },
		newCase: func() any { return new(C04Case) },
		gen:     func(rt *rapid.T) any { return genC04(rt) },
		classify: func(h *Harness, x any) bool {
			c := x.(*C04Case)
			v := nt[c]
			delete(nt, c)
			h.class("mode-" + c.Mode)
			h.class(fmt.Sprintf("cols-%d", c.Cols))

			return v
		},
		run: func(h *Harness, child *rig.Child, x any) *Failure {
			c := x.(*C04Case)
			f, v := runC04(h, child, c)
			nt[c] = v

			return f
		},
	})
}
