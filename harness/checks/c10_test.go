package checks

import (
	"fmt"
	"os"
	"path/filepath"
	"strings"
	"testing"
	"unicode/utf8"

	"pgregory.net/rapid"

	"github.com/reeflective/readline"

	"verif/harness/rig"
)

// C10 — file-backed history survives restarts and crashes. API only.

const c10Rule = "histories = 1-3 phases (write, reopen, write ...) of 0-12 lines each from: ASCII words, quotes/backslashes, embedded \\n \\r NUL and other controls, U+2028, CJK/astral, leading/trailing blanks, blank lines, consecutive duplicates, long lines (1 KiB..200 KiB, straddling the 64 KiB scanner limit); oracle (a) a handle reopened from the file returns, in order, every non-blank line whose Write returned no error (compared after TrimSpace and after collapsing consecutive duplicates on both sides); (b) crash-point enumeration: for the file left by the history plus one more append, EVERY byte offset inside that last record (all offsets for records <= 600 bytes; first/last 96 bytes plus 120 spread offsets for longer ones) is used as truncation point: reopen must not fail, must return the earlier entries intact and in order (the torn one only if complete), and a fresh line written through the reopened handle must be returned by the next reopen; non-trivial = a record > 64 KiB, or a non-ASCII / JSON-escaped character, or >= 1 earlier entry before the torn record; distinct = hash of the case"

type C10Case struct {
	Phases [][]string `json:"phases"`
	Torn   string     `json:"torn"`  // the append that is cut at every offset
	Fresh  string     `json:"fresh"` // written after reopening the torn file
	Long   []int      `json:"long,omitempty"`
}

var c10Pieces = []string{"ls", "-la", "echo", "git commit -m", `"quoted"`, `'single'`, `back\slash`, `\n`, "\n", "\r", "\r\n", "\x00", "\x01", "\x1b[31m", "\t",
	" ", " ", "\u0085", "日本語", "한글", "😀", "𠀃", "é", "{", "}", `{"block":"x"}`, `","block":"`, ":", ",", " ", "  ", "#", "$HOME", "a", "b", "\\", `\"`, " ", "\ufeff"}

func genC10Line(t *rapid.T) string {
	switch rapid.IntRange(0, 11).Draw(t, "linekind") {
	case 0:
		return rapid.SampledFrom([]string{"", " ", "\t", "  \n ", " "}).Draw(t, "blank")
	case 1:
		return rapid.SampledFrom([]string{"dup", "dup", " dup ", "dup\n"}).Draw(t, "dup")
	case 2:
		return strings.Repeat(rapid.SampledFrom([]string{" ", "\t", "\n"}).Draw(t, "lead"), rapid.IntRange(1, 3).Draw(t, "nlead")) +
			"cmd " + rapid.SampledFrom(c10Pieces).Draw(t, "p") +
			strings.Repeat(rapid.SampledFrom([]string{" ", "\t", "\n"}).Draw(t, "trail"), rapid.IntRange(0, 3).Draw(t, "ntrail"))
	default:
		parts := rapid.SliceOfN(rapid.SampledFrom(c10Pieces), 1, 8).Draw(t, "parts")
		return strings.Join(parts, rapid.SampledFrom([]string{" ", "", " "}).Draw(t, "join"))
	}
}

func genC10(t *rapid.T) *C10Case {
	c := &C10Case{}
	np := rapid.IntRange(1, 3).Draw(t, "phases")

	for p := 0; p < np; p++ {
		n := rapid.IntRange(0, 12).Draw(t, "nlines")
		lines := make([]string, 0, n)

		for i := 0; i < n; i++ {
			lines = append(lines, genC10Line(t))
		}

		c.Phases = append(c.Phases, lines)
	}

	// long lines are expensive: about one case in eight
	if rapid.IntRange(0, 7).Draw(t, "haslong") == 0 {
		size := rapid.SampledFrom([]int{1000, 4096, 65000, 65400, 65470, 65536, 66000, 70000, 200000}).Draw(t, "longsize")
		p := rapid.IntRange(0, len(c.Phases)-1).Draw(t, "longphase")
		unit := rapid.SampledFrom([]string{"x", "ab ", "é", "\\", "\"", "日"}).Draw(t, "longunit")
		line := "long " + strings.Repeat(unit, size/len(unit))
		at := rapid.IntRange(0, len(c.Phases[p])).Draw(t, "longat")
		c.Phases[p] = append(c.Phases[p][:at], append([]string{line}, c.Phases[p][at:]...)...)
		c.Long = append(c.Long, len(line))
	}

	c.Torn = "torn " + genC10Line(t)
	if rapid.IntRange(0, 15).Draw(t, "tornlong") == 0 {
		c.Torn = "torn " + strings.Repeat("y", rapid.SampledFrom([]int{2000, 66000}).Draw(t, "tornsize"))
	}

	c.Fresh = "fresh " + rapid.SampledFrom(c10Pieces).Draw(t, "freshp")

	return c
}

// model: what a reopened history must return
func c10Expect(lines []string) []string {
	var out []string

	for _, l := range lines {
		l = strings.TrimSpace(l)
		if l == "" {
			continue
		}

		if len(out) > 0 && out[len(out)-1] == l {
			continue
		}

		out = append(out, l)
	}

	return out
}

func c10Read(path string) ([]string, error) {
	src, err := readline.NewHistoryFromFile(path)
	if err != nil {
		return nil, err
	}

	var out []string

	for i := 0; i < src.Len(); i++ {
		l, err := src.GetLine(i)
		if err != nil {
			return nil, fmt.Errorf("GetLine(%d) of %d: %w", i, src.Len(), err)
		}

		out = append(out, l)
	}

	return c10Expect(out), nil
}

func eqStrings(a, b []string) bool {
	if len(a) != len(b) {
		return false
	}

	for i := range a {
		if a[i] != b[i] {
			return false
		}
	}

	return true
}

func short(ss []string) string {
	var sb strings.Builder

	sb.WriteString(fmt.Sprintf("%d entries [", len(ss)))

	for i, s := range ss {
		if i > 0 {
			sb.WriteString(", ")
		}

		if i >= 6 {
			sb.WriteString("…")
			break
		}

		sb.WriteString(fmt.Sprintf("%q", head(s, 40)))
	}

	sb.WriteString("]")

	return sb.String()
}

var c10Seq int

func runC10(h *Harness, c *C10Case) (f *Failure) {
	defer func() {
		if r := recover(); r != nil {
			f = failf("panic", "c10:panic", "panic in the history API: %v", r)
		}
	}()

	c10Seq++
	dir := filepath.Join(envRunDir, fmt.Sprintf("c10-%s-%d", envShard, os.Getpid()))
	os.MkdirAll(dir, 0o700)

	path := filepath.Join(dir, fmt.Sprintf("hist-%d", c10Seq))
	os.Remove(path)

	defer os.Remove(path)

	sigLong := ""

	for _, n := range c.Long {
		if n+64 >= 65536 {
			sigLong = ":over64k"
		}
	}

	var written []string

	for pi, phase := range c.Phases {
		src, err := readline.NewHistoryFromFile(path)
		if _, serr := os.Stat(path); err != nil && serr == nil {
			return failf("reopen", "c10:reopen-error", "reopening %s failed: %v", path, err)
		}

		for _, l := range phase {
			if _, err := src.Write(l); err == nil {
				written = append(written, l)
			}
		}

		got, err := c10Read(path)
		if err != nil {
			if len(c10Expect(written)) == 0 {
				continue // nothing was ever written: no file yet
			}

			return failf("reopen", "c10:reopen-error", "reopening failed: %v", err)
		}

		if want := c10Expect(written); !eqStrings(got, want) {
			return failf("roundtrip", "c10:roundtrip"+sigLong, "after phase %d a reopened history returns %s, written: %s", pi+1, short(got), short(want))
		}
	}

	// ---- crash-point enumeration on one more append
	before, _ := os.ReadFile(path)

	src, _ := readline.NewHistoryFromFile(path)
	if _, err := src.Write(c.Torn); err != nil {
		return nil
	}

	full, err := os.ReadFile(path)
	if err != nil || len(full) <= len(before) {
		return failf("append", "c10:append", "append of %q did not grow the file", head(c.Torn, 60))
	}

	base := c10Expect(written)
	withTorn := c10Expect(append(append([]string{}, written...), c.Torn))
	rec := len(full) - len(before)

	offsets := []int{}

	if rec <= 600 {
		for o := 0; o < rec; o++ {
			offsets = append(offsets, o)
		}

		h.class("torn-record-all-offsets")
	} else {
		for o := 0; o < 96; o++ {
			offsets = append(offsets, o, rec-1-o)
		}

		for i := 1; i <= 120; i++ {
			offsets = append(offsets, 96+(rec-192)*i/121)
		}

		h.class("torn-record-sampled-offsets")
	}

	// every cut point re-reads the whole file several times: thin the offsets
	// out when earlier records made the file large
	if len(full) > 100000 && len(offsets) > 64 {
		thin := []int{}
		for i := 0; i < 64; i++ {
			thin = append(thin, offsets[i*len(offsets)/64])
		}

		offsets = thin
		h.class("torn-record-thinned-offsets")
	}

	h.classN("cut-points", len(offsets))

	cut := path + ".cut"
	defer os.Remove(cut)

	for _, o := range offsets {
		if err := os.WriteFile(cut, full[:len(before)+o], 0o600); err != nil {
			return &Failure{Clause: "infra", Msg: err.Error(), Infra: true}
		}

		got, err := c10Read(cut)
		if err != nil {
			return failf("crash-reopen", "c10:crash-reopen-error", "file cut at offset %d of the last %d-byte record: reopen failed: %v", o, rec, err)
		}

		if !eqStrings(got, base) && !eqStrings(got, withTorn) {
			return failf("crash-intact", "c10:crash-lost"+sigLong, "file cut at offset %d of the last %d-byte record: reopened history returns %s, completed entries were %s", o, rec, short(got), short(base))
		}

		tornPresent := eqStrings(got, withTorn) && !eqStrings(base, withTorn)

		s2, err := readline.NewHistoryFromFile(cut)
		if err != nil {
			return failf("crash-reopen", "c10:crash-reopen-error", "reopen failed: %v", err)
		}

		if _, err := s2.Write(c.Fresh); err != nil {
			return failf("crash-append", "c10:crash-append-error", "file cut at offset %d: writing after reopening failed: %v", o, err)
		}

		got2, err := c10Read(cut)
		if err != nil {
			return failf("crash-reopen", "c10:crash-reopen-error", "reopen failed: %v", err)
		}

		prior := base
		if tornPresent {
			prior = withTorn
		}

		want2 := c10Expect(append(append([]string{}, prior...), c.Fresh))
		if !eqStrings(got2, want2) {
			return failf("crash-durable", "c10:crash-append-lost"+sigLong, "file cut at offset %d of the last %d-byte record (%d bytes kept, ends in newline: %v): a line written after reopening is not returned by the next reopen: got %s, want %s",
				o, rec, len(before)+o, o == 0 || full[len(before)+o-1] == '\n', short(got2), short(want2))
		}
	}

	return nil
}

func TestC10(t *testing.T) {
	runProp(t, propDef{
		id: "C10", check: "histfile", rule: c10Rule, noChild: true,
		newCase: func() any { return new(C10Case) },
		gen:     func(rt *rapid.T) any { return genC10(rt) },
		classify: func(h *Harness, x any) bool {
			c := x.(*C10Case)
			nonASCII, over64, prior := false, false, false

			for _, p := range c.Phases {
				for _, l := range p {
					if strings.TrimSpace(l) != "" {
						prior = true
					}

					for _, r := range l {
						if r >= utf8.RuneSelf || r < 0x20 || r == '"' || r == '\\' {
							nonASCII = true
						}
					}
				}
			}

			for _, n := range c.Long {
				if n+64 >= 65536 {
					over64 = true
				}
			}

			if nonASCII {
				h.class("escaped-or-non-ascii")
			}

			if over64 {
				h.class("record-over-64k")
			}

			if len(c.Phases) > 1 {
				h.class("multi-phase")
			}

			if prior {
				h.class("entries-before-torn-record")
			}

			return nonASCII || over64 || prior
		},
		run: func(h *Harness, _ *rig.Child, x any) *Failure { return runC10(h, x.(*C10Case)) },
	})
}
