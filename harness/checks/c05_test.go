package checks

import (
	"fmt"
	"os"
	"sort"
	"testing"
	"unicode/utf8"

	"pgregory.net/rapid"

	"verif/harness/proto"
	"verif/harness/rig"
)

// C05 — the result does not depend on how input is chunked or timed.

const c05Rule = "a key script (C01 alphabet: text incl. multi-byte, controls, ESC/CSI sequences, commands by name, argument-reading commands with their argument, digit arguments, vi keys, deep-mode phrases; always ending in a fixed accept tail) is delivered under 3-4 schedules of the same bytes: canonical (one token per read), random byte cuts (inside CSI sequences and UTF-8 runes), one single read (paste), and report-glued (a slice of the bytes rides in the same write as a cursor position report, before or after it); every ESC byte is marked lone (every schedule cuts right after it) or prefix (no schedule cuts right after it) as the statement prescribes; oracle (differential): all schedules give the same (line, error), or if none returned the same final buffer, cursor and keymaps; non-trivial = some schedule cuts inside a multi-byte token or between a command and its argument key, or a glued delivery happened; distinct = hash of the case"

type C05Case struct {
	Mode  string      `json:"mode"`
	Vars  [][2]string `json:"vars,omitempty"`
	Hist  []string    `json:"hist,omitempty"`
	Comp  bool        `json:"comp,omitempty"`
	Steps []Step      `json:"steps"`
	// Schedules: each is a sorted list of byte offsets (cuts) into the joined
	// script; Glue, when >= 0, says the chunk starting at cut index Glue rides
	// with the next cursor report instead of being sent as a read of its own.
	Cuts   [][]int `json:"cuts"`
	Glue   []int   `json:"glue"`
	Before []bool  `json:"before"`

	mustCut map[int]bool
	noCut   map[int]bool
}

var c05Comp = &proto.CompSpec{Cands: []proto.Cand{{Value: "foo"}, {Value: "foobar"}, {Value: "food"}, {Value: "bar"}, {Value: "baz", Desc: "a description"}}, Mode: "word"}

// abortish bytes: the known finding "abort consumes type-ahead" is kept out of
// the search by cutting every schedule right after them.
func c05IsAbortByte(b byte) bool { return b == 0x03 || b == 0x07 }

func (c *C05Case) bytesAndMarks(e *Env) []byte {
	c.mustCut, c.noCut = map[int]bool{}, map[int]bool{}

	var out []byte

	for _, s := range c.Steps {
		b := s.bytes(e)

		for i, x := range b {
			off := len(out) + i + 1 // cut position right after this byte

			if x == 0x1b {
				if len(b) == 1 || s.Note == "esc" {
					c.mustCut[off] = true // lone ESC
				} else if i < len(b)-1 {
					c.noCut[off] = true // prefix ESC
				} else {
					c.mustCut[off] = true
				}
			}

			if c05IsAbortByte(x) {
				c.mustCut[off] = true
			}
		}

		out = append(out, b...)
	}

	return out
}

func genC05(t *rapid.T, e *Env) *C05Case {
	c := &C05Case{Mode: rapid.SampledFrom([]string{"emacs", "emacs", "vi"}).Draw(t, "mode")}
	c.Vars = genVars(t, 3)

	// drop settings whose documented purpose makes them depend on redisplay timing
	vars := c.Vars[:0]

	for _, v := range c.Vars {
		if v[0] == "autocomplete" || v[0] == "history-autosuggest" {
			continue
		}

		vars = append(vars, v)
	}

	c.Vars = vars
	c.Hist = genHist(t)
	c.Comp = rapid.Bool().Draw(t, "comp")

	steps := genScript(t, e, 1, 14)
	clean := steps[:0]

	for _, s := range steps {
		// commands kept out: they end the call from the outside (signals to the
		// rig), re-read files, or are the known abort finding
		// invalid / truncated UTF-8 is left to C01: a terminal in UTF-8 mode only
		// sends complete characters, and how garbage is resynchronised legitimately
		// depends on where a read ends
		if !utf8.Valid(s.bytes(e)) {
			continue
		}

		// keyboard macros have their own property (C18) and multiply every other
		// chunking effect: kept out of this check's scripts
		switch s.Note {
		case "start-kbd-macro", "end-kbd-macro", "call-last-kbd-macro", "macro-record", "macro-stop", "macro-run", "macro-toggle-record", "print-last-kbd-macro":
			continue
		}

		if b := string(s.bytes(e)); b == "\x18(" || b == "\x18)" || b == "\x18e" || b == "q" || b == "@" {
			continue
		}

		switch s.Note {
		case "abort", "vi-select-inside", "re-read-init-file", "edit-command-line", "edit-and-execute-command", "vi-edit-command-line", "vi-edit-and-execute-command":
			continue
		}

		clean = append(clean, s)
	}

	// Known finding "vi-operator-charobject": after a vi operator, text objects
	// that take a character argument (i" a( i' ...) and the line motions j/k give
	// chunk-dependent results. Excluded by construction (the search continues behind
	// it); a dedicated regress case keeps reporting it.
	filtered := clean[:0]

	for i, s := range clean {
		if s.Note == "motion" && i > 0 && (clean[i-1].Note == "operator" || clean[i-1].Note == "count") && c05CharObject(string(s.bytes(e))) {
			filtered = append(filtered, Step{Keys: encs("w"), Note: "motion"})
			continue
		}

		filtered = append(filtered, s)
	}

	clean = filtered

	c.Steps = append(clean, Step{Keys: encs("\x1b"), Note: "esc"}, Step{Keys: encs("\r"), Note: "accept"}, Step{Keys: encs("\r"), Note: "accept"})

	data := c.bytesAndMarks(e)
	n := len(data)

	// token boundaries
	tokenCuts := []int{}
	off := 0

	for _, s := range c.Steps {
		off += len(s.bytes(e))
		if off < n {
			tokenCuts = append(tokenCuts, off)
		}
	}

	normalize := func(cuts []int) []int {
		set := map[int]bool{}

		for _, o := range cuts {
			if o > 0 && o < n && !c.noCut[o] {
				set[o] = true
			}
		}

		for o := range c.mustCut {
			if o > 0 && o < n {
				set[o] = true
			}
		}

		out := []int{}
		for o := range set {
			out = append(out, o)
		}

		sort.Ints(out)

		return out
	}

	// schedule 0: canonical
	c.Cuts = append(c.Cuts, normalize(tokenCuts))
	c.Glue = append(c.Glue, -1)
	c.Before = append(c.Before, false)

	// schedule 1: paste
	c.Cuts = append(c.Cuts, normalize(nil))
	c.Glue = append(c.Glue, -1)
	c.Before = append(c.Before, false)

	// schedule 2: random byte cuts
	k := rapid.IntRange(1, 8).Draw(t, "ncuts")
	rc := []int{}

	for i := 0; i < k && n > 1; i++ {
		rc = append(rc, rapid.IntRange(1, n-1).Draw(t, "cut"))
	}

	c.Cuts = append(c.Cuts, normalize(rc))
	c.Glue = append(c.Glue, -1)
	c.Before = append(c.Before, false)

	// schedule 3: glued with a report
	if rapid.IntRange(0, 2).Draw(t, "glued") > 0 {
		base := normalize(append(append([]int{}, tokenCuts...), rc...))
		c.Cuts = append(c.Cuts, base)

		g := -1
		if len(base) > 0 {
			g = rapid.IntRange(0, len(base)-1).Draw(t, "glueat")
		}

		c.Glue = append(c.Glue, g)
		c.Before = append(c.Before, rapid.Bool().Draw(t, "gluebefore"))
	}

	return c
}

func c05CharObject(m string) bool {
	switch m {
	case "i\"", "a\"", "i(", "a(", "i'", "s\"", "j", "k":
		return true
	}

	return false
}

// c05Sig names the known mechanisms a differential failure can be attributed to.
func c05Sig(c *C05Case, e *Env, kind string) string {
	for i, s := range c.Steps {
		if s.Note == "motion" && i > 0 && (c.Steps[i-1].Note == "operator" || c.Steps[i-1].Note == "count") && c05CharObject(string(s.bytes(e))) {
			return "c05:vi-operator-charobject"
		}
	}

	data := joinStepsEnv(c.Steps, e)
	for i, b := range data {
		if c05IsAbortByte(b) && i+1 < len(data) {
			// an abort key with type-ahead behind it in some schedule
			for si := range c.Cuts {
				cutAfter := false
				for _, o := range c.Cuts[si] {
					if o == i+1 {
						cutAfter = true
					}
				}

				if !cutAfter {
					return "c05:abort-consumes-typeahead"
				}
			}
		}
	}

	return "c05:" + kind
}

func joinStepsEnv(steps []Step, e *Env) []byte {
	var out []byte
	for _, s := range steps {
		out = append(out, s.bytes(e)...)
	}

	return out
}

type c05Outcome struct {
	Returned bool
	Line     string
	Err      string
	Pos      int
	Main     string
	Local    string
	Parks    int
}

func (o c05Outcome) String() string {
	if o.Returned {
		return fmt.Sprintf("returned(line=%q err=%q)", o.Line, o.Err)
	}

	return fmt.Sprintf("waiting(buffer=%q pos=%d main=%s local=%s)", o.Line, o.Pos, o.Main, o.Local)
}

func (c *C05Case) spec(e *Env) *proto.Spec {
	spec := &proto.Spec{Calls: 1, Inputrc: renderVars(c.Mode, c.Vars), Prompt: &proto.PromptSpec{Primary: "> "}, Binds: e.privateBinds(mainKeymaps...)}
	spec.Hist = []proto.HistSpec{{Kind: "mem", Name: "h", Entries: c.Hist}}

	if c.Comp {
		spec.Completer = c05Comp
	}

	return spec
}

func runC05Schedule(h *Harness, child *rig.Child, c *C05Case, e *Env, data []byte, si int) (c05Outcome, *Failure, bool) {
	s, st := child.Start(c.spec(e), rig.SessionOpts{Cols: 80, Rows: 24})
	glued := false

	defer func() {
		h.Sessions++
		h.Keys += s.Keys
		s.Finish()
	}()

	if f := stopFailure(st); f != nil {
		return c05Outcome{}, f, false
	}

	bounds := append(append([]int{0}, c.Cuts[si]...), len(data))
	parks := 0

	for i := 0; i+1 < len(bounds); i++ {
		if st.Kind != "park" {
			break
		}

		chunk := data[bounds[i]:bounds[i+1]]
		if len(chunk) == 0 {
			continue
		}

		// glue: chunk i+1 rides with the report that follows chunk i
		if c.Glue[si] >= 0 && i+1 < len(bounds)-1 && c.Glue[si] == i && len(data[bounds[i+1]:bounds[i+2]]) > 0 {
			next := data[bounds[i+1]:bounds[i+2]]
			reports := child.Reports
			st = s.SendGlued(chunk, next, c.Before[si])
			glued = child.Reports > reports
			i++

			if !glued {
				// no redisplay happened before the call ended or parked: the
				// glued bytes were never written; deliver them normally
				if st.Kind == "park" {
					child.CancelGlue()
					st = s.Send(next)
				}
			}
		} else {
			st = s.Send(chunk)
		}

		parks++

		if os.Getenv("VERIF_TRACE") != "" {
			fmt.Printf("TRACE sched=%d chunk=%q -> %s\n", si, chunk, st)
		}

		if f := stopFailure(st); f != nil {
			f.Msg = fmt.Sprintf("schedule %d (cuts %v glue %d): %s", si, c.Cuts[si], c.Glue[si], f.Msg)
			return c05Outcome{}, f, glued
		}
	}

	child.CancelGlue()

	switch st.Kind {
	case "return":
		return c05Outcome{Returned: true, Line: st.Ev.Line, Err: st.Ev.Err}, nil, glued
	case "park":
		return c05Outcome{Line: st.Ev.Line, Pos: st.Ev.Pos, Main: st.Ev.Main, Local: st.Ev.Local}, nil, glued
	}

	return c05Outcome{}, &Failure{Clause: "infra", Msg: "unexpected stop " + st.String(), Infra: true}, glued
}

func runC05(h *Harness, child *rig.Child, c *C05Case) (*Failure, bool, bool) {
	e := h.env()
	data := c.bytesAndMarks(e)

	var first c05Outcome

	anyGlued := false
	interesting := false

	// non-triviality: a schedule cuts inside a token or between command and argument
	tokenEnds := map[int]bool{}
	off := 0

	for _, s := range c.Steps {
		off += len(s.bytes(e))
		tokenEnds[off] = true
	}

	for si := range c.Cuts {
		for _, o := range c.Cuts[si] {
			if !tokenEnds[o] {
				interesting = true
			}
		}
	}

	if len(c.Cuts[1]) < len(c.Cuts[0]) {
		interesting = true // paste joins tokens the canonical schedule separates
	}

	for si := range c.Cuts {
		out, f, glued := runC05Schedule(h, child, c, e, data, si)
		if f != nil {
			return f, interesting, anyGlued
		}

		anyGlued = anyGlued || glued

		if si == 0 {
			first = out
			continue
		}

		same := out.Returned == first.Returned && out.Line == first.Line && out.Err == first.Err
		if !out.Returned {
			same = same && out.Pos == first.Pos && out.Main == first.Main && out.Local == first.Local
		}

		if !same {
			kind := []string{"canonical", "paste", "random-cuts", "report-glued"}[si]
			sig := c05Sig(c, e, kind)

			return failf("differential", sig, "the same %d bytes gave different outcomes:\n  one token per read (cuts %v): %s\n  %s (cuts %v, glue at chunk %d before=%v): %s\nscript: %s",
				len(data), c.Cuts[0], first, kind, c.Cuts[si], c.Glue[si], c.Before[si], out, notes(c.Steps)), interesting, anyGlued
		}
	}

	return nil, interesting, anyGlued
}

func TestC05(t *testing.T) {
	var e *Env

	type res struct{ interesting, glued bool }

	last := map[*C05Case]res{}

	runProp(t, propDef{
		id: "C05", check: "chunking", rule: c05Rule,
		setup:   func(h *Harness) { e = h.env() },
		newCase: func() any { return new(C05Case) },
		gen:     func(rt *rapid.T) any { return genC05(rt, e) },
		classify: func(h *Harness, x any) bool {
			c := x.(*C05Case)
			r := last[c]
			delete(last, c)

			if r.interesting {
				h.class("cut-inside-token-or-joined-tokens")
			}

			if r.glued {
				h.class("glued-with-report")
			}

			if c.Mode == "vi" {
				h.class("vi-mode")
			}

			h.classN("schedules", len(c.Cuts))

			return r.interesting || r.glued
		},
		run: func(h *Harness, child *rig.Child, x any) *Failure {
			c := x.(*C05Case)
			f, interesting, glued := runC05(h, child, c)
			last[c] = res{interesting, glued}

			return f
		},
	})
}
