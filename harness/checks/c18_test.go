package checks

import (
	"fmt"
	"strings"
	"testing"

	"pgregory.net/rapid"

	"verif/harness/proto"
	"verif/harness/rig"
)

// C18 — replaying a keyboard macro equals retyping its keys.

const c18Rule = "start buffer B0 and a key script K of 1-25 editing/movement keys: printables incl. quotes and backslash, control keys (C-a C-e C-b C-f C-d C-k C-y C-t C-w C-u C-h), ESC-prefixed keys (M-b M-f M-d M-u M-l M-c M-DEL), CSI arrows/Home/End/Delete, C-v + key; vi style: vi command keys (h l w b e 0 $ x X ~ p P D dw cw r<c> i/a/A/I...ESC); never the macro-control keys nor accept; emacs style C-x ( K C-x ) C-x e, vi style q<r> K q @<r>; one key per read in both sessions; oracle (metamorphic): session T types B0 K then K r times, session R types B0, records K, replays r times (r = 1, 2, 3, and 21 or 24 for macros of up to 5 keys): final buffers, cursors and (after a common CR) returned lines are equal; pre-check: T after the first K equals R after recording, otherwise K itself is not deterministic and the case is discarded (counted); non-trivial = K has a control or ESC/CSI key and changes the buffer; distinct = hash of the case"

type C18Case struct {
	Style string      `json:"style"` // emacs | vi
	B0    string      `json:"b0"`
	K     []K         `json:"k"` // one key per element
	Reg   string      `json:"reg,omitempty"`
	Vars  [][2]string `json:"vars,omitempty"`
	// number of replays (0 = 1): typing K 1+Reps times must equal recording it
	// once and replaying it Reps times, each replay a command of its own
	Reps int `json:"reps,omitempty"`
}

func (c *C18Case) reps() int {
	if c.Reps < 1 {
		return 1
	}

	return c.Reps
}

var c18EmacsKeys = []string{"a", "b", " ", "x", "\"", "'", "\\", "(", "é", "1", "-",
	"\x01", "\x05", "\x02", "\x06", "\x04", "\x0b", "\x19", "\x14", "\x17", "\x15", "\x08",
	"\x1bb", "\x1bf", "\x1bd", "\x1bu", "\x1bl", "\x1bc", "\x1b\x7f", "\x1bt",
	"\x1b[A", "\x1b[B", "\x1b[C", "\x1b[D", "\x1b[H", "\x1b[F", "\x1b[3~", "\x7f"}

func genC18(t *rapid.T) *C18Case {
	c := &C18Case{Style: rapid.SampledFrom([]string{"emacs", "emacs", "vi"}).Draw(t, "style")}
	c.B0 = rapid.SampledFrom([]string{"", "foo bar", "hello world again", "a", "x y z", "--flag=v 'q'", "one two", "say \"hello\" and \"world\"", "f(a, b) 'x'"}).Draw(t, "b0")

	if c.Style == "emacs" {
		n := rapid.IntRange(1, 25).Draw(t, "n")

		for i := 0; i < n; i++ {
			if rapid.IntRange(0, 11).Draw(t, "quoted") == 0 {
				c.K = append(c.K, encs("\x16"), encs(rapid.SampledFrom([]string{"a", "\x01", "\x1b", "\t", "\x7f", "\x1c", "\x1d", "\x1f", "\x00", "\\", "\""}).Draw(t, "qarg")))
				continue
			}

			c.K = append(c.K, encs(rapid.SampledFrom(c18EmacsKeys).Draw(t, "key")))
		}

		c.Reps = genC18Reps(t, len(c.K))
		c.Vars = genDisplayVars(t)

		return c
	}

	c.Reg = rapid.SampledFrom([]string{"a", "b", "z"}).Draw(t, "reg")
	n := rapid.IntRange(1, 12).Draw(t, "n")

	for i := 0; i < n; i++ {
		switch rapid.IntRange(0, 7).Draw(t, "vikind") {
		case 6: // operator + text object named by a character the command reads itself
			c.K = append(c.K, encs(rapid.SampledFrom([]string{"d", "c", "y"}).Draw(t, "op")), encs(rapid.SampledFrom([]string{"i", "a"}).Draw(t, "ia")),
				encs(rapid.SampledFrom([]string{"\"", "'", "(", "w", "W"}).Draw(t, "obj")))
			c.K = append(c.K, encs("\x1b"))
		case 7: // character searches
			c.K = append(c.K, encs(rapid.SampledFrom([]string{"f", "F", "t", "T"}).Draw(t, "find")), encs(rapid.SampledFrom([]string{"o", " ", "\"", "a"}).Draw(t, "farg")))
		case 0: // insertion
			c.K = append(c.K, encs(rapid.SampledFrom([]string{"i", "a", "A", "I"}).Draw(t, "ins")))

			for _, r := range rapid.SampledFrom([]string{"x", "ab", "\"q\"", "a b", "\\", "\x16\x1c", "\x16\x1d"}).Draw(t, "instext") {
				c.K = append(c.K, encs(string(r)))
			}

			c.K = append(c.K, encs("\x1b"))
		case 1:
			c.K = append(c.K, encs("r"), encs(rapid.SampledFrom([]string{"z", "Q", "."}).Draw(t, "rarg")))
		case 2:
			c.K = append(c.K, encs("d"), encs(rapid.SampledFrom([]string{"w", "b", "e", "$", "0", "l", "h"}).Draw(t, "dmot")))
		default:
			c.K = append(c.K, encs(rapid.SampledFrom([]string{"h", "l", "w", "b", "e", "0", "$", "x", "X", "~", "p", "P", "D", "^"}).Draw(t, "vikey")))
		}
	}

	c.Reps = genC18Reps(t, len(c.K))
	c.Vars = genDisplayVars(t)

	return c
}

// many replays only of short macros (cost, and buffers stay small)
func genC18Reps(t *rapid.T, nkeys int) int {
	r := rapid.SampledFrom([]int{1, 1, 1, 1, 1, 1, 1, 2, 3, 21, 24}).Draw(t, "reps")
	if r > 3 && nkeys > 5 {
		r = 2
	}

	return r
}

func (c *C18Case) reg() string {
	if len(c.Reg) != 1 {
		return "a"
	}

	return c.Reg
}

type c18Out struct {
	afterFirst *proto.Event
	final      *proto.Event
	line       string
	returned   bool
}

func runC18Session(h *Harness, child *rig.Child, c *C18Case, record bool) (*c18Out, *Failure) {
	mode := "emacs"
	if c.Style == "vi" {
		mode = "vi"
	}

	spec := &proto.Spec{Calls: 1, Inputrc: renderVars(mode, append([][2]string{}, c.Vars...)), LogCmds: true, Prompt: &proto.PromptSpec{Primary: "> "}}
	d := openDrive(h, child, spec, rig.SessionOpts{Cols: 120, Rows: 30})

	defer d.close()

	for _, r := range c.B0 {
		d.send([]byte(string(r)))
	}

	if c.Style == "vi" {
		d.send([]byte("\x1b"))
	}

	typeK := func() {
		for _, k := range c.K {
			d.send(k.dec())
		}
	}

	out := &c18Out{}

	if !record {
		typeK()

		if d.fail != nil {
			return nil, d.fail
		}

		if d.st.Kind != "park" {
			return nil, &Failure{Clause: "discard", Msg: "script-ended-the-call"}
		}

		out.afterFirst = d.parks[len(d.parks)-1]

		for i := 0; i < c.reps(); i++ {
			typeK()
		}
	} else {
		if c.Style == "emacs" {
			d.send([]byte("\x18("))
		} else {
			d.send([]byte("q"))
			d.send([]byte(c.reg()))
		}

		typeK()

		if d.fail != nil {
			return nil, d.fail
		}

		if d.st.Kind != "park" {
			return nil, &Failure{Clause: "discard", Msg: "script-ended-the-call"}
		}

		if c.Style == "emacs" {
			d.send([]byte("\x18)"))
		} else {
			d.send([]byte("q"))
		}

		if d.fail != nil {
			return nil, d.fail
		}

		if d.st.Kind != "park" {
			return nil, &Failure{Clause: "discard", Msg: "script-ended-the-call"}
		}

		out.afterFirst = d.parks[len(d.parks)-1]

		if out.afterFirst.Rec {
			return nil, &Failure{Clause: "discard", Msg: "still-recording"}
		}

		for i := 0; i < c.reps(); i++ {
			if c.Style == "emacs" {
				d.send([]byte("\x18e"))
			} else {
				d.send([]byte("@"))
				d.send([]byte(c.reg()))
			}
		}
	}

	if d.fail != nil {
		return nil, d.fail
	}

	if d.st.Kind != "park" {
		return nil, &Failure{Clause: "discard", Msg: "script-ended-the-call"}
	}

	out.final = d.parks[len(d.parks)-1]

	// common accept
	if out.final.Local != "" || (c.Style == "vi" && out.final.Main != "vi-command") {
		d.send([]byte("\x1b"))
	}

	d.send([]byte("\r"))

	if d.fail != nil {
		return nil, d.fail
	}

	if d.st.Kind == "return" {
		out.returned, out.line = true, d.st.Ev.Line
	}

	return out, nil
}

// escAmbiguous reports whether the script has a lone ESC directly followed by a
// key that, read together with it, is (a prefix of) an ESC-prefixed binding of
// the insert keymap: known finding "lone-esc-in-macro".
func escAmbiguous(e *Env, c *C18Case) bool {
	for i := 0; i+1 < len(c.K); i++ {
		if string(c.K[i].dec()) != "\x1b" {
			continue
		}

		seq := normSeq([]rune("\x1b" + string(c.K[i+1].dec())))

		for bound := range e.Binds["vi-insert"] {
			if strings.HasPrefix(normSeq([]rune(bound)), seq) {
				return true
			}
		}
	}

	return false
}

func runC18(h *Harness, child *rig.Child, c *C18Case) (*Failure, bool) {
	if c.Style == "vi" && c.Reg != "known" && escAmbiguous(h.env(), c) {
		// excluded by construction (counted); the regress case keeps reporting it
		h.mu.Lock()
		h.Excluded++
		h.mu.Unlock()

		return nil, false
	}

	tOut, f := runC18Session(h, child, c, false)
	if f != nil {
		return f, false
	}

	rOut, f := runC18Session(h, child, c, true)
	if f != nil {
		return f, false
	}

	keys := []string{}
	special := false

	for _, k := range c.K {
		keys = append(keys, string(k))

		if b := k.dec(); len(b) > 0 && (b[0] < 0x20 || b[0] == 0x7f) {
			special = true
		}
	}

	// pre-check: K itself behaves the same typed for the first time and typed
	// while being recorded; otherwise the case is not about macros
	if tOut.afterFirst.Line != rOut.afterFirst.Line || tOut.afterFirst.Pos != rOut.afterFirst.Pos || tOut.afterFirst.Main != rOut.afterFirst.Main {
		return &Failure{Clause: "discard", Msg: "k-not-deterministic"}, false
	}

	changes := tOut.afterFirst.Line != c.B0

	if tOut.final.Line != rOut.final.Line || tOut.final.Pos != rOut.final.Pos || tOut.final.Main != rOut.final.Main {
		sig := "c18:" + c.Style + ":" + c18Class(c)
		if c.Style == "vi" && escAmbiguous(h.env(), c) {
			sig = "c18:lone-esc-in-macro"
		}

		return failf("replay", sig, "%s-style macro of keys [%s] from buffer %q: typing the keys 1+%d times gives %q (cursor %d, %s); recording them once and replaying %d time(s) gives %q (cursor %d, %s); after the first pass both had %q",
			c.Style, strings.Join(keys, " "), c.B0, c.reps(), tOut.final.Line, tOut.final.Pos, tOut.final.Main, c.reps(), rOut.final.Line, rOut.final.Pos, rOut.final.Main, tOut.afterFirst.Line), true
	}

	if tOut.returned != rOut.returned || tOut.line != rOut.line {
		return failf("replay-line", "c18:"+c.Style+":line", "returned lines differ: typed %q (%v) vs replayed %q (%v)", tOut.line, tOut.returned, rOut.line, rOut.returned), true
	}

	return nil, special && changes
}

// c18Class names the kind of key the macro contains, for signatures.
func c18Class(c *C18Case) string {
	cls := map[string]bool{}

	for _, k := range c.K {
		b := k.dec()

		switch {
		case len(b) == 1 && b[0] == 0x1b:
			cls["lone-esc"] = true
		case len(b) > 1 && b[0] == 0x1b && b[1] == '[':
			cls["csi"] = true
		case len(b) > 1 && b[0] == 0x1b:
			cls["meta"] = true
		case len(b) == 1 && (b[0] < 0x20 || b[0] == 0x7f):
			cls["control"] = true
		case len(b) > 1:
			cls["multibyte"] = true
		}
	}

	for _, n := range []string{"lone-esc", "csi", "meta", "control", "multibyte"} {
		if cls[n] {
			return n
		}
	}

	return "printable"
}

func TestC18(t *testing.T) {
	nt := map[*C18Case]bool{}

	runProp(t, propDef{
		id: "C18", check: "macro", rule: c18Rule,
		setup:   func(h *Harness) { h.env() },
		newCase: func() any { return new(C18Case) },
		gen:     func(rt *rapid.T) any { return genC18(rt) },
		classify: func(h *Harness, x any) bool {
			c := x.(*C18Case)
			v := nt[c]
			delete(nt, c)

			h.class("style-" + c.Style)
			h.class("contains-" + c18Class(c))
			h.classN("macro-keys", len(c.K))

			return v
		},
		run: func(h *Harness, child *rig.Child, x any) *Failure {
			c := x.(*C18Case)
			f, v := runC18(h, child, c)
			nt[c] = v

			return f
		},
	})
}

var _ = fmt.Sprint
