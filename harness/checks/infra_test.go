package checks

import (
	"crypto/sha256"
	"encoding/hex"
	"encoding/json"
	"fmt"
	"hash/fnv"
	"os"
	"path/filepath"
	"sort"
	"strings"
	"sync"
	"testing"
	"time"

	"pgregory.net/rapid"

	"verif/harness/proto"
	"verif/harness/rig"
)

// Environment set by the driver (cmd/vcheck).
var (
	envRlapp   = os.Getenv("VERIF_RLAPP")
	envTier    = getenv("VERIF_TIER", "quick")
	envStats   = os.Getenv("VERIF_STATS")
	envReplays = getenv("VERIF_REPLAY_DIR", "/verif/replays")
	envRunDir  = getenv("VERIF_RUN_DIR", os.TempDir())
	envRoot    = getenv("VERIF_ROOT", "/verif")
	envShard   = getenv("VERIF_SHARD", "0")
	envReplay  = os.Getenv("VERIF_REPLAY_FILE")
)

func getenv(k, def string) string {
	if v := os.Getenv(k); v != "" {
		return v
	}

	return def
}

func thorough() bool { return envTier == "thorough" }

// Failure is the result of an oracle that did not hold.
type Failure struct {
	Clause string `json:"clause"` // which oracle clause failed
	Msg    string `json:"msg"`
	Sig    string `json:"sig"` // signature used to match known findings
	Infra  bool   `json:"-"`   // infrastructure trouble (not a verdict)
}

func (f *Failure) String() string {
	return fmt.Sprintf("[%s] %s (sig=%s)", f.Clause, f.Msg, f.Sig)
}

func failf(clause, sig, format string, a ...any) *Failure {
	return &Failure{Clause: clause, Sig: sig, Msg: fmt.Sprintf(format, a...)}
}

// Finding is an entry of /verif/known_findings.json.
type Finding struct {
	Property string `json:"property"`
	Status   string `json:"status"` // known | fixed
	Sig      string `json:"sig"`    // exact signature, or prefix when it ends in '*'
	What     string `json:"what"`
	Commit   string `json:"commit,omitempty"`
	Regress  string `json:"regress,omitempty"`
}

var (
	findingsOnce sync.Once
	findings     []Finding
)

func loadFindings() []Finding {
	findingsOnce.Do(func() {
		buf, err := os.ReadFile(filepath.Join(envRoot, "known_findings.json"))
		if err != nil {
			return
		}

		var doc struct {
			Findings []Finding `json:"findings"`
		}

		if err := json.Unmarshal(buf, &doc); err != nil {
			panic("known_findings.json: " + err.Error())
		}

		findings = doc.Findings
	})

	return findings
}

func sigMatch(pat, sig string) bool {
	if strings.HasSuffix(pat, "*") {
		return strings.HasPrefix(sig, strings.TrimSuffix(pat, "*"))
	}

	return pat == sig
}

// knownFinding returns the listed (status known) finding matching the failure.
func knownFinding(prop string, f *Failure) *Finding {
	for i, k := range loadFindings() {
		if k.Property == prop && k.Status == "known" && sigMatch(k.Sig, f.Sig) {
			return &findings[i]
		}
	}

	return nil
}

// Harness collects statistics for one property in one test process.
type Harness struct {
	t     *testing.T
	Prop  string
	start time.Time

	mu          sync.Mutex
	Evaluations int
	Sessions    int
	Keys        int
	Discarded   int
	Excluded    int
	Classes     map[string]int
	nontrivial  map[uint64]struct{}
	Samples     []json.RawMessage
	Exhaustive  map[string]bool
	knownSeen   map[string]int

	child *rig.Child

	collected    map[string]string
	lastFailCase json.RawMessage
	lastFail     *Failure
	rule         string
	violations   []string
	inconclusive []string
}

func newHarness(t *testing.T, prop, rule string) *Harness {
	h := &Harness{t: t, Prop: prop, start: time.Now(), Classes: map[string]int{}, nontrivial: map[uint64]struct{}{},
		Exhaustive: map[string]bool{}, knownSeen: map[string]int{}, rule: rule}

	return h
}

// Child returns a live child, starting one when needed.
func (h *Harness) Child() *rig.Child {
	if h.child != nil && !h.child.Dead() && h.child.Sessions < 3000 {
		return h.child
	}

	if h.child != nil {
		h.child.Quit()
	}

	c, err := h.startChild()
	if err != nil {
		h.t.Fatalf("INFRA: cannot start child: %v", err)
	}

	h.child = c

	return c
}

var childSeq int

func (h *Harness) startChild() (*rig.Child, error) {
	if envRlapp == "" {
		return nil, fmt.Errorf("VERIF_RLAPP not set")
	}

	childSeq++
	scratch := filepath.Join(envRunDir, fmt.Sprintf("child-%s-%d-%d", envShard, os.Getpid(), childSeq))

	c, err := rig.StartChild(envRlapp, scratch)
	if err != nil {
		return nil, err
	}

	if thorough() {
		c.Timeout = 20 * time.Second
	}

	return c, nil
}

// FreshChild starts a separate child (used to confirm failures).
func (h *Harness) FreshChild() *rig.Child {
	c, err := h.startChild()
	if err != nil {
		h.t.Fatalf("INFRA: cannot start child: %v", err)
	}

	c.Timeout = 30 * time.Second

	return c
}

func (h *Harness) class(name string) {
	h.mu.Lock()
	h.Classes[name]++
	h.mu.Unlock()
}

func (h *Harness) classN(name string, n int) {
	h.mu.Lock()
	h.Classes[name] += n
	h.mu.Unlock()
}

// count records one evaluated case; nontrivial cases are hashed for the
// distinct count, and the first few are kept verbatim as samples.
func (h *Harness) count(c any, nontrivial bool) {
	h.mu.Lock()
	defer h.mu.Unlock()

	h.Evaluations++

	if !nontrivial {
		return
	}

	buf, err := json.Marshal(c)
	if err != nil {
		return
	}

	f := fnv.New64a()
	f.Write(buf)
	k := f.Sum64()

	if _, seen := h.nontrivial[k]; !seen {
		h.nontrivial[k] = struct{}{}

		if len(h.Samples) < 4 && len(buf) < 4000 {
			h.Samples = append(h.Samples, buf)
		}
	}
}

// check evaluates the outcome of one case inside a rapid property.
// Known findings are counted and let pass so the search continues behind them.
func (h *Harness) check(rt *rapid.T, c any, f *Failure) {
	if f == nil {
		return
	}

	if f.Clause == "discard" {
		h.mu.Lock()
		h.Discarded++
		h.Classes["discarded:"+strings.SplitN(f.Msg, " ", 2)[0]]++
		h.mu.Unlock()

		return
	}

	if f.Infra {
		h.mu.Lock()
		h.inconclusive = append(h.inconclusive, f.String())
		h.mu.Unlock()
		rt.Fatalf("INFRA: %s", f)
	}

	if k := knownFinding(h.Prop, f); k != nil {
		h.mu.Lock()
		h.Excluded++
		h.knownSeen[k.Sig]++
		h.mu.Unlock()

		return
	}

	buf, _ := json.Marshal(c)

	// Development aid: collect one example per signature and keep searching.
	if os.Getenv("VERIF_COLLECT") != "" {
		h.mu.Lock()
		if h.collected == nil {
			h.collected = map[string]string{}
		}

		h.knownSeen["collect:"+f.Sig]++

		if _, ok := h.collected[f.Sig]; !ok {
			h.collected[f.Sig] = f.String() + "\nCASE: " + string(buf)
			fmt.Printf("COLLECTED %s\n%s\nCASE: %s\n\n", f.Sig, head(f.String(), 1800), head(string(buf), 3000))
		}
		h.mu.Unlock()

		return
	}

	h.lastFailCase = buf
	h.lastFail = f
	rt.Fatalf("%s", f)
}

// Replay is what a replay file holds.
type Replay struct {
	Property string          `json:"property"`
	Check    string          `json:"check"`
	Case     json.RawMessage `json:"case"`
	Failure  *Failure        `json:"failure,omitempty"`
	Expect   string          `json:"expect,omitempty"` // regress files: "pass" or "known:<sig>"
	Note     string          `json:"note,omitempty"`
}

// violation writes the replay file and prints the VIOLATION line.
func (h *Harness) violation(check string, c json.RawMessage, f *Failure) {
	os.MkdirAll(envReplays, 0o755)

	sum := sha256.Sum256(append([]byte(check), c...))
	path := filepath.Join(envReplays, fmt.Sprintf("%s-%s.json", h.Prop, hex.EncodeToString(sum[:6])))
	buf, _ := json.MarshalIndent(&Replay{Property: h.Prop, Check: check, Case: c, Failure: f}, "", " ")
	os.WriteFile(path, buf, 0o644)

	fmt.Printf("VIOLATION property=%s replay=%s\n", h.Prop, path)
	fmt.Printf("  detail: %s\n", f)
	h.violations = append(h.violations, path)
}

// finishRapid is deferred by rapid-driven tests: it turns the last recorded
// (minimal) failure into a confirmed violation, and writes the statistics.
func (h *Harness) finishRapid(check string, confirm func(c json.RawMessage) *Failure) {
	if h.lastFail != nil {
		// Confirm in a fresh child before believing it.
		var f *Failure

		tries := 1
		if strings.HasPrefix(h.lastFail.Clause, "hang") {
			tries = 2
		}

		confirmed := true

		for i := 0; i < tries; i++ {
			f = confirm(h.lastFailCase)
			if f == nil || f.Infra {
				confirmed = false
				break
			}
		}

		if confirmed {
			if k := knownFinding(h.Prop, f); k != nil {
				h.knownSeen[k.Sig]++
			} else {
				h.violation(check, h.lastFailCase, f)
			}
		} else {
			msg := fmt.Sprintf("failure did not reproduce in a fresh child: %s case=%s", h.lastFail, string(h.lastFailCase))
			fmt.Printf("INCONCLUSIVE property=%s %s\n", h.Prop, msg)
			h.inconclusive = append(h.inconclusive, msg)
		}
	}

	h.writeStats()

	if h.child != nil {
		h.child.Quit()
	}
}

// StatsFile is what each test process leaves for the driver.
type StatsFile struct {
	Property     string            `json:"property"`
	Test         string            `json:"test"`
	Evaluations  int               `json:"evaluations"`
	Sessions     int               `json:"sessions"`
	Keys         int               `json:"keys"`
	Discarded    int               `json:"discarded"`
	Excluded     int               `json:"excluded_known"`
	Classes      map[string]int    `json:"classes"`
	Hashes       []uint64          `json:"hashes"`
	Samples      []json.RawMessage `json:"samples"`
	Exhaustive   map[string]bool   `json:"exhaustive"`
	Known        map[string]int    `json:"known_seen"`
	Rule         string            `json:"rule"`
	Violations   []string          `json:"violations"`
	Inconclusive []string          `json:"inconclusive"`
	WallS        float64           `json:"wall_s"`
}

func (h *Harness) writeStats() {
	if envStats == "" {
		return
	}

	h.mu.Lock()
	defer h.mu.Unlock()

	sf := &StatsFile{Property: h.Prop, Test: h.t.Name(), Evaluations: h.Evaluations, Sessions: h.Sessions, Keys: h.Keys,
		Discarded: h.Discarded, Excluded: h.Excluded, Classes: h.Classes, Samples: h.Samples, Exhaustive: h.Exhaustive,
		Known: h.knownSeen, Rule: h.rule, Violations: h.violations, Inconclusive: h.inconclusive, WallS: time.Since(h.start).Seconds()}

	for k := range h.nontrivial {
		sf.Hashes = append(sf.Hashes, k)
	}

	sort.Slice(sf.Hashes, func(i, j int) bool { return sf.Hashes[i] < sf.Hashes[j] })

	buf, _ := json.Marshal(sf)
	name := fmt.Sprintf("%s.%s.%d.json", envStats, strings.ReplaceAll(h.t.Name(), "/", "_"), os.Getpid())
	os.WriteFile(name, buf, 0o644)
}

// runRegress runs the saved cases of /verif/regress/<prop>/ through run().
func (h *Harness) runRegress(check string, run func(c json.RawMessage) *Failure) {
	dir := filepath.Join(envRoot, "regress", h.Prop)

	files, _ := filepath.Glob(filepath.Join(dir, "*.json"))
	sort.Strings(files)

	for _, file := range files {
		buf, err := os.ReadFile(file)
		if err != nil {
			continue
		}

		var r Replay
		if err := json.Unmarshal(buf, &r); err != nil {
			h.t.Errorf("INFRA: bad regress file %s: %v", file, err)
			continue
		}

		if r.Check != check {
			continue
		}

		f := run(r.Case)
		h.mu.Lock()
		h.Evaluations++
		h.Classes["regress-cases"]++
		h.mu.Unlock()

		switch {
		case f != nil && f.Infra:
			h.inconclusive = append(h.inconclusive, file+": "+f.String())
			h.t.Errorf("INFRA: %s: %s", file, f)
		case strings.HasPrefix(r.Expect, "known:"):
			want := strings.TrimPrefix(r.Expect, "known:")

			switch {
			case f == nil:
				fmt.Printf("NOTE property=%s known finding %q no longer reproduces (%s)\n", h.Prop, want, filepath.Base(file))
			case knownFinding(h.Prop, f) != nil:
				k := knownFinding(h.Prop, f)
				fmt.Printf("KNOWN-FINDING: property=%s %s [sig=%s]\n", h.Prop, k.What, k.Sig)
				h.knownSeen[k.Sig]++
			default:
				h.violation(check, r.Case, f)
				h.t.Errorf("regress %s: %s", file, f)
			}
		default:
			if f != nil {
				if k := knownFinding(h.Prop, f); k != nil {
					fmt.Printf("KNOWN-FINDING: property=%s %s [sig=%s]\n", h.Prop, k.What, k.Sig)
					h.knownSeen[k.Sig]++
				} else {
					h.violation(check, r.Case, f)
					h.t.Errorf("regress %s: %s", file, f)
				}
			}
		}
	}
}

// ---------------------------------------------------------------------------
// helpers shared by the session checks

// stopFailure turns abnormal stops into failures (crash / hang / death).
func stopFailure(st *rig.Stop) *Failure {
	switch st.Kind {
	case "panic":
		return failf("panic", "panic:"+panicSite(st.Ev.Stack)+":"+panicClass(st.Ev.Value), "panic: %s\n%s", st.Ev.Value, trimStack(st.Ev.Stack))
	case "died":
		if cls := fatalClass(st.Detail); cls == "race" {
			return failf("race", "race:"+raceSites(st.Detail), "the race detector stopped the child: %s", head(st.Detail[strings.Index(st.Detail, "WARNING: DATA RACE"):], 3500))
		}

		return failf("fatal", "fatal:"+fatalClass(st.Detail), "child died: %s", head(st.Detail, 1500))
	case "hang":
		if strings.HasPrefix(st.Detail, "slow:") {
			return &Failure{Clause: "discard", Msg: strings.SplitN(st.Detail, "\n", 2)[0]}
		}

		cls := strings.SplitN(st.Detail, "\n", 2)[0]
		return failf("hang", "hang:"+strings.SplitN(cls, ":", 2)[0]+":"+hangSite(st.Detail), "watchdog expired: %s", head(st.Detail, 3000))
	case "error":
		return &Failure{Clause: "infra", Msg: st.Detail, Infra: true}
	}

	return nil
}

func head(s string, n int) string {
	if len(s) > n {
		return s[:n] + "…"
	}

	return s
}

func trimStack(s string) string {
	lines := strings.Split(s, "\n")
	if len(lines) > 40 {
		lines = lines[:40]
	}

	return strings.Join(lines, "\n")
}

// panicSite is the top library frame (function) of a panic stack.
func panicSite(stack string) string {
	lines := strings.Split(stack, "\n")
	seenPanic := false

	for _, l := range lines {
		if strings.HasPrefix(l, "panic(") {
			seenPanic = true
			continue
		}

		if !seenPanic || strings.HasPrefix(l, "\t") {
			continue
		}

		if strings.Contains(l, "github.com/reeflective/readline") {
			fn := l
			if i := strings.LastIndex(fn, "("); i > 0 {
				fn = fn[:i]
			}

			return strings.TrimPrefix(fn, "github.com/reeflective/readline")
		}
	}

	// no panic( line: take first library frame
	for _, l := range lines {
		if !strings.HasPrefix(l, "\t") && strings.Contains(l, "github.com/reeflective/readline") {
			fn := l
			if i := strings.LastIndex(fn, "("); i > 0 {
				fn = fn[:i]
			}

			return strings.TrimPrefix(fn, "github.com/reeflective/readline")
		}
	}

	return "?"
}

func panicClass(v string) string {
	switch {
	case strings.Contains(v, "index out of range"):
		return "index"
	case strings.Contains(v, "slice bounds out of range"):
		return "slice"
	case strings.Contains(v, "nil pointer"):
		return "nil"
	case strings.Contains(v, "verif probe panic"):
		return "probe"
	case strings.Contains(v, "nil map"):
		return "nilmap"
	case strings.Contains(v, "divide by zero"):
		return "div0"
	}

	return "other"
}

func fatalClass(out string) string {
	switch {
	case strings.Contains(out, "stack overflow") || strings.Contains(out, "goroutine stack exceeds") || strings.Contains(out, "runtime.newstack()"):
		return "stackoverflow"
	case strings.Contains(out, "all goroutines are asleep"):
		return "deadlock"
	case strings.Contains(out, "concurrent map"):
		return "concurrentmap"
	case strings.Contains(out, "DATA RACE"):
		return "race"
	case strings.Contains(out, "panic:"):
		i := strings.Index(out, "panic:")
		return "panic:" + panicSite(out[i:]) + ":" + panicClass(out[i:])
	}

	return "other"
}

// raceSites names a race report. A race one side of which runs in one of the
// library's asynchronous parties (the resize goroutine started by
// display.WatchResize, an application goroutine inside Shell.Printf /
// PrintTransientf) is named after that party: these call Refresh with no
// synchronisation with the main loop, which is one root cause whatever two
// statements the detector happens to pair. Any other race is named after the
// first library function of each of its two stacks.
func raceSites(out string) string {
	i := strings.Index(out, "WARNING: DATA RACE")
	if i < 0 {
		return "?"
	}

	report := out[i:]
	if j := strings.Index(report, "Goroutine "); j > 0 {
		report = report[:j] // the two access stacks, not the creation stacks
	}

	switch {
	case strings.Contains(report, "display.WatchResize.func1"):
		return "resize-goroutine"
	case strings.Contains(report, "readline.(*Shell).Printf") || strings.Contains(report, "readline.(*Shell).PrintTransientf"):
		return "printf-goroutine"
	}

	sites := []string{}
	want := false

	for _, l := range strings.Split(report, "\n") {
		t := strings.TrimSpace(l)

		switch {
		case strings.Contains(t, " at 0x") && strings.Contains(t, " by "):
			if want {
				sites = append(sites, "?")
			}

			want = true
		case want && strings.HasPrefix(t, "github.com/reeflective/readline"):
			site := strings.TrimPrefix(t, "github.com/reeflective/readline")
			if j := strings.LastIndex(site, "("); j > 0 {
				site = site[:j]
			}

			sites = append(sites, site)
			want = false
		}

		if len(sites) == 2 {
			break
		}
	}

	sort.Strings(sites)

	return strings.Join(sites, "|")
}

// raceFailure turns the race detector's log into a failure: the first report
// that is not a recorded finding, else the first recorded one.
func raceFailure(prop, log, ctx string) *Failure {
	var known *Failure

	for _, rep := range strings.Split(log, "==================") {
		if !strings.Contains(rep, "WARNING: DATA RACE") {
			continue
		}

		f := failf("race", "race:"+raceSites(rep), "%s: the race detector reports: %s", ctx, head(strings.TrimSpace(rep), 3500))

		if knownFinding(prop, f) == nil {
			return f
		}

		if known == nil {
			known = f
		}
	}

	return known
}

func hangSite(dump string) string {
	blocks := strings.Split(dump, "\n\n")
	for _, b := range blocks {
		if !strings.Contains(b, "readline.(*Shell).Readline") && !strings.Contains(b, "main.runParse") {
			continue
		}

		for _, l := range strings.Split(b, "\n") {
			if !strings.HasPrefix(l, "\t") && strings.Contains(l, "github.com/reeflective/readline") {
				fn := l
				if i := strings.LastIndex(fn, "("); i > 0 {
					fn = fn[:i]
				}

				return strings.TrimPrefix(fn, "github.com/reeflective/readline")
			}
		}
	}

	return "?"
}

// baseInputrc is prepended to every generated inputrc: it pins the variables
// the sandbox's /etc/inputrc would otherwise not be asked about.
const baseInputrc = "# generated by the verification harness\n"

func ptr[T any](v T) *T { return &v }

var _ = proto.Spec{}

// ---------------------------------------------------------------------------
// generic property runner

type propDef struct {
	id, check, rule string
	noChild         bool
	newCase         func() any
	gen             func(rt *rapid.T) any
	// classify labels the case in the statistics and says whether it is
	// non-trivial by the property's rule.
	classify func(h *Harness, c any) bool
	run      func(h *Harness, child *rig.Child, c any) *Failure
	// enumerate runs the bounded-exhaustive part (shard 0 only).
	enumerate func(h *Harness, report func(c any, f *Failure))
	// setup runs once before anything else (e.g. to ask the child for its bind tables).
	setup func(h *Harness)
	// enumAllShards: the enumeration partitions itself over the shards.
	enumAllShards bool
}

func runProp(t *testing.T, d propDef) {
	h := newHarness(t, d.id, d.rule)

	decodeRun := func(raw json.RawMessage, child *rig.Child) *Failure {
		c := d.newCase()
		if err := json.Unmarshal(raw, c); err != nil {
			return &Failure{Clause: "infra", Msg: "bad case: " + err.Error(), Infra: true}
		}

		return d.run(h, child, c)
	}

	confirm := func(raw json.RawMessage) *Failure {
		if d.noChild {
			return decodeRun(raw, nil)
		}

		c := h.FreshChild()
		defer c.Quit()

		return decodeRun(raw, c)
	}

	defer h.finishRapid(d.check, confirm)

	if d.setup != nil {
		d.setup(h)
	}

	child := func() *rig.Child {
		if d.noChild {
			return nil
		}

		return h.Child()
	}

	if envReplay != "" {
		buf, err := os.ReadFile(envReplay)
		if err != nil {
			t.Fatalf("INFRA: %v", err)
		}

		var r Replay
		if err := json.Unmarshal(buf, &r); err != nil {
			t.Fatalf("INFRA: %v", err)
		}

		if r.Check != d.check {
			return
		}

		f := decodeRun(r.Case, child())

		switch {
		case f == nil:
			fmt.Printf("REPLAY property=%s check=%s: passes\n", d.id, d.check)
		case f.Infra:
			t.Fatalf("INFRA: %s", f)
		default:
			if k := knownFinding(d.id, f); k != nil {
				fmt.Printf("KNOWN-FINDING: property=%s %s [sig=%s]\n", d.id, k.What, k.Sig)
			} else {
				fmt.Printf("VIOLATION property=%s replay=%s\n  detail: %s\n", d.id, envReplay, f)
				t.Fail()
			}
		}

		return
	}

	if envShard == "0" {
		h.runRegress(d.check, func(raw json.RawMessage) *Failure { return decodeRun(raw, child()) })
	}

	if envShard == "0" || d.enumAllShards {
		if d.enumerate != nil {
			d.enumerate(h, func(c any, f *Failure) {
				if f == nil {
					return
				}

				// as in the random part: a watchdog expiry counts only when it
				// reproduces in a fresh child
				if strings.HasPrefix(f.Clause, "hang") && !d.noChild && d.run != nil {
					fresh := h.FreshChild()
					f2 := d.run(h, fresh, c)
					fresh.Quit()

					if f2 == nil || !strings.HasPrefix(f2.Clause, "hang") {
						h.mu.Lock()
						h.Discarded++
						h.Classes["unreproduced-watchdog-expiry"]++
						h.mu.Unlock()

						if f = f2; f == nil {
							return
						}
					}
				}

				if f.Clause == "discard" {
					h.Discarded++
					return
				}

				if f.Infra {
					h.inconclusive = append(h.inconclusive, f.String())
					t.Errorf("INFRA: %s", f)

					return
				}

				if k := knownFinding(d.id, f); k != nil {
					h.Excluded++
					h.knownSeen[k.Sig]++

					return
				}

				buf, _ := json.Marshal(c)
				h.violation(d.check, buf, f)
				t.Errorf("%s", f)
			})
		}
	}

	if d.gen == nil || t.Failed() {
		return
	}

	rapid.Check(t, func(rt *rapid.T) {
		c := d.gen(rt)
		f := d.run(h, child(), c)

		// A watchdog expiry is only believed when it reproduces in a fresh child
		// (with the long limit): a stall of the machine is not a verdict, and must
		// not end the run either. Unreproduced ones are counted.
		if f != nil && strings.HasPrefix(f.Clause, "hang") && !d.noChild {
			fresh := h.FreshChild()
			f2 := d.run(h, fresh, c)
			fresh.Quit()

			if f2 == nil || !strings.HasPrefix(f2.Clause, "hang") {
				h.mu.Lock()
				h.Discarded++
				h.Classes["unreproduced-watchdog-expiry"]++
				h.mu.Unlock()

				f = f2
			}
		}
		// classified after the run: some rules depend on what the session reached
		h.count(c, d.classify(h, c))
		h.check(rt, c, f)
	})
}
