// rlapp is the application under test: it links the library (built with the
// `verif` tag), has the pty slave on fds 0/1/2 and runs sessions on request.
package main

import (
	"bufio"
	"encoding/json"
	"errors"
	"fmt"
	"io"
	"os"
	"os/signal"
	"runtime"
	"runtime/debug"
	"sort"
	"strconv"
	"strings"
	"sync"
	"syscall"
	"time"

	"golang.org/x/sys/unix"

	"github.com/reeflective/readline"
	"github.com/reeflective/readline/inputrc"

	"verif/harness/proto"
)

var (
	evMu  sync.Mutex
	evOut *bufio.Writer

	gateIn *bufio.Reader

	curMu    sync.Mutex
	curShell *readline.Shell
	holds    = map[string]chan struct{}{}
	parkN    int
	scratch  string
)

func emit(ev *proto.Event) {
	buf, err := json.Marshal(ev)
	if err != nil {
		buf, _ = json.Marshal(&proto.Event{Ev: "error", Msg: err.Error()})
	}

	evMu.Lock()
	evOut.Write(buf)
	evOut.WriteByte('\n')
	evOut.Flush()
	evMu.Unlock()
}

func main() {
	debug.SetMaxStack(64 << 20)

	if f := os.NewFile(proto.FdCrash, "crash"); f != nil {
		debug.SetCrashOutput(f, debug.CrashOptions{})
	}

	debug.SetTraceback("crash")

	evOut = bufio.NewWriter(os.NewFile(proto.FdEvent, "events"))
	gateIn = bufio.NewReader(os.NewFile(proto.FdGate, "gate"))
	ops := bufio.NewReaderSize(os.NewFile(proto.FdOps, "ops"), 1<<20)
	scratch = os.Getenv("VERIF_SCRATCH")

	readline.VerifSetStdin(&gate{})

	sessions := make(chan *proto.Spec)

	// Our own view of SIGWINCH: the runtime offers each signal to every
	// registered channel in the same pass, so once the driver has been told
	// about n signals the library's handler has been offered all n.
	winch := make(chan os.Signal, 1024)
	signal.Notify(winch, syscall.SIGWINCH)

	go func() {
		n := 0
		for range winch {
			n++
			emit(&proto.Event{Ev: "winch", Tag: n})
		}
	}()

	go func() {
		for {
			line, err := ops.ReadBytes('\n')
			if err != nil {
				os.Exit(0)
			}

			var op proto.Op
			if err := json.Unmarshal(line, &op); err != nil {
				emit(&proto.Event{Ev: "error", Msg: "bad op: " + err.Error()})
				continue
			}

			switch op.Op {
			case "session":
				sessions <- op.Spec
			case "printf":
				curMu.Lock()
				sh := curShell
				curMu.Unlock()

				if sh != nil {
					go func(text string, tag int) {
						defer func() {
							if r := recover(); r != nil {
								emit(&proto.Event{Ev: "panic", Value: fmt.Sprint(r), Stack: string(debug.Stack()), Msg: "printf goroutine"})
							}
						}()
						sh.Printf("%s", text)
						emit(&proto.Event{Ev: "printf-done", Tag: tag})
					}(op.Text, op.Tag)
				}
			case "transientf":
				curMu.Lock()
				sh := curShell
				curMu.Unlock()

				if sh != nil {
					go func(text string, tag int) {
						defer func() {
							if r := recover(); r != nil {
								emit(&proto.Event{Ev: "panic", Value: fmt.Sprint(r), Stack: string(debug.Stack()), Msg: "printf goroutine"})
							}
						}()
						sh.PrintTransientf("%s", text)
						emit(&proto.Event{Ev: "printf-done", Tag: tag})
					}(op.Text, op.Tag)
				}
			case "release":
				curMu.Lock()
				ch := holds[op.Probe]
				curMu.Unlock()

				if ch != nil {
					select {
					case ch <- struct{}{}:
					default:
					}
				}
			case "stacks":
				buf := make([]byte, 1<<20)
				n := runtime.Stack(buf, true)
				emit(&proto.Event{Ev: "stacks", Dump: string(buf[:n]), Tag: op.Tag})
			case "parse":
				// Run on its own goroutine: a parse that never returns must not
				// block the ops reader (the parent's watchdog deals with it).
				go runParse(op.Parse, op.Tag)
			case "quit":
				os.Exit(0)
			}
		}
	}()

	emit(&proto.Event{Ev: "ready"})

	for spec := range sessions {
		runSession(spec)
	}
}

// ---------------------------------------------------------------------------
// The gate: every read of terminal input by the library goes through here.

type gate struct{}

func (g *gate) Close() error { return nil }

func classify() string {
	pcs := make([]uintptr, 32)
	n := runtime.Callers(2, pcs)
	frames := runtime.CallersFrames(pcs[:n])
	kind := "other"

	for {
		fr, more := frames.Next()

		switch {
		case strings.HasSuffix(fr.Function, ".ReadKey"):
			return "arg"
		case strings.HasSuffix(fr.Function, "core.WaitAvailableKeys"):
			kind = "main"
		}

		if !more {
			break
		}
	}

	return kind
}

func snapshot(ev *proto.Event) {
	curMu.Lock()
	sh := curShell
	curMu.Unlock()

	if sh == nil {
		return
	}

	line := sh.Line()
	ev.Line = string(*line)
	ev.RawLen = line.Len()
	ev.Pos = sh.Cursor().Pos()
	ev.Mark = sh.Cursor().Mark()
	ev.SelAct = sh.Selection().Active()
	ev.SelB, ev.SelE = -1, -1

	if ev.SelAct {
		ev.SelB, ev.SelE = sh.Selection().Pos()
	}

	ev.Main = string(sh.Keymap.Main())
	ev.Local = string(sh.Keymap.Local())
	ev.Iter = sh.Iterations.IsSet()
	ev.Kill = string(sh.Buffers.GetKill())
	ev.Hint = sh.Hint.Text()
	ev.Rec = sh.Macros.Recording()
	ev.Active = sh.Keymap.ActiveCommand().Action
}

func (g *gate) Read(buf []byte) (int, error) {
	parkN++
	ev := &proto.Event{Ev: "park", N: parkN, Kind: classify()}
	snapshot(ev)

	// The marker goes through the terminal, so the parent knows that everything
	// the library wrote before going to wait has come out of the pty master.
	fmt.Fprintf(os.Stdout, "\x1b]7777;%d\x07", parkN)
	emit(ev)

	gfd := int32(proto.FdGate)
	fds := []unix.PollFd{{Fd: gfd, Events: unix.POLLIN}, {Fd: 0, Events: unix.POLLIN}}

	for {
		fds[0].Revents, fds[1].Revents = 0, 0

		if gateIn.Buffered() == 0 {
			if _, err := unix.Poll(fds, -1); err != nil {
				if errors.Is(err, syscall.EINTR) {
					continue
				}

				return 0, err
			}
		}

	instruction:
		if gateIn.Buffered() > 0 || fds[0].Revents&(unix.POLLIN|unix.POLLHUP) != 0 {
			line, err := gateIn.ReadBytes('\n')
			if err != nil {
				os.Exit(0)
			}

			var ins proto.Gate
			json.Unmarshal(line, &ins)

			switch ins.Op {
			case "go":
				// Wait until the whole chunk is in the tty queue: the library
				// then sees exactly the chunk the schedule prescribes.
				for i := 0; ; i++ {
					avail, err := unix.IoctlGetInt(0, unix.TIOCINQ)
					if err != nil || avail >= ins.N {
						break
					}

					time.Sleep(20 * time.Microsecond)

					if i == 20000 {
						t := getTermios()
						emit(&proto.Event{Ev: "error", Msg: fmt.Sprintf("gate: GO %d but only %d bytes in the tty queue (park %d) lflag=%#x iflag=%#x", ins.N, avail, parkN, t.Lflag, t.Iflag)})
					}
				}

				return os.Stdin.Read(buf)
			case "eof":
				return 0, io.EOF
			case "ioerr":
				return 0, syscall.EIO
			case "abort":
				emit(&proto.Event{Ev: "aborting"})
				runtime.Goexit()
			}

			continue
		}

		if fds[1].Revents&(unix.POLLIN|unix.POLLHUP|unix.POLLERR) != 0 {
			// The driver writes GO before the bytes, but poll() looks at the
			// descriptors one after the other and can be preempted in between:
			// look at the gate pipe again before concluding there is no GO.
			again := []unix.PollFd{{Fd: gfd, Events: unix.POLLIN}}
			if n, _ := unix.Poll(again, 0); n > 0 && again[0].Revents&(unix.POLLIN|unix.POLLHUP) != 0 {
				fds[0].Revents = again[0].Revents
				goto instruction
			}

			// Bytes without a GO: a cursor report asked for by another
			// goroutine, or a hang-up. Let the kernel's own read decide.
			return os.Stdin.Read(buf)
		}
	}
}

// holdProbe is the body of a "hold" command: it blocks until released (its
// name is what the driver looks for in goroutine dumps).
func holdProbe(name string, ch chan struct{}) {
	emit(&proto.Event{Ev: "probe-hold", Name: name, After: parkN})
	<-ch
	emit(&proto.Event{Ev: "probe-released", Name: name, After: parkN})
}

// ---------------------------------------------------------------------------

type recSource struct {
	mu     sync.Mutex
	items  []string
	writes []string
}

func (h *recSource) Write(s string) (int, error) {
	h.mu.Lock()
	defer h.mu.Unlock()
	h.items = append(h.items, s)
	h.writes = append(h.writes, s)

	return len(h.items), nil
}

func (h *recSource) GetLine(i int) (string, error) {
	h.mu.Lock()
	defer h.mu.Unlock()

	if i < 0 || i >= len(h.items) {
		return "", errors.New("rec: index out of range")
	}

	return h.items[i], nil
}

func (h *recSource) Len() int {
	h.mu.Lock()
	defer h.mu.Unlock()

	return len(h.items)
}

func (h *recSource) Dump() interface{} { return h.items }

func getTermios() *proto.Termios {
	t, err := unix.IoctlGetTermios(0, unix.TCGETS)
	if err != nil {
		return &proto.Termios{Err: err.Error()}
	}

	out := &proto.Termios{Iflag: t.Iflag, Oflag: t.Oflag, Cflag: t.Cflag, Lflag: t.Lflag, Line: t.Line, Ispeed: t.Ispeed, Ospeed: t.Ospeed}
	copy(out.Cc[:], t.Cc[:])

	return out
}

func dumpSources(srcs []readline.History) [][]string {
	out := make([][]string, len(srcs))

	for i, s := range srcs {
		out[i] = []string{}
		for j := 0; j < s.Len(); j++ {
			l, err := s.GetLine(j)
			if err != nil {
				l = "<<error: " + err.Error() + ">>"
			}

			out[i] = append(out[i], l)
		}
	}

	return out
}

func runSession(spec *proto.Spec) {
	defer func() {
		curMu.Lock()
		curShell = nil
		holds = map[string]chan struct{}{}
		curMu.Unlock()
		emit(&proto.Event{Ev: "session-end", N: spec.ID})
	}()

	// Environment and inputrc as the application would find them.
	rc := scratch + "/inputrc"
	os.WriteFile(rc, []byte(spec.Inputrc), 0o600)
	os.Setenv("INPUTRC", rc)

	for k, v := range spec.Env {
		os.Setenv(k, v)
	}

	var shell *readline.Shell
	var srcs []readline.History
	var recs []*recSource

	ok := func() (ok bool) {
		defer func() {
			if r := recover(); r != nil {
				emit(&proto.Event{Ev: "panic", Value: fmt.Sprint(r), Stack: string(debug.Stack()), Msg: "setup"})
				ok = false
			}
		}()

		var opts []inputrc.Option
		if spec.App != "" {
			opts = append(opts, inputrc.WithApp(spec.App))
		}

		if spec.Term != "" {
			opts = append(opts, inputrc.WithTerm(spec.Term))
		}

		if spec.Mode != "" {
			opts = append(opts, inputrc.WithMode(spec.Mode))
		}

		shell = readline.NewShell(opts...)
		configure(shell, spec, &srcs, &recs)

		return true
	}()
	if !ok {
		return
	}

	curMu.Lock()
	curShell = shell
	curMu.Unlock()

	if spec.Describe {
		describe(shell)
	}

	emit(&proto.Event{Ev: "configured", Hist: dumpSources(srcs)})

	for call := 0; call < spec.Calls; call++ {
		emit(&proto.Event{Ev: "call-start", Call: call, Termios: getTermios()})

		done := make(chan *proto.Event, 1)

		go func() {
			var ev *proto.Event

			finished := false

			defer func() {
				if r := recover(); r != nil {
					ev = &proto.Event{Ev: "panic", Value: fmt.Sprint(r), Stack: string(debug.Stack())}
				} else if !finished {
					ev = &proto.Event{Ev: "aborted"}
				}

				done <- ev
			}()

			line, err := shell.Readline()
			finished = true
			ev = &proto.Event{Ev: "return", Line: line}

			if err != nil {
				ev.HasErr = true
				ev.Err = err.Error()
			}
		}()

		ev := <-done
		ev.Call = call
		ev.Termios = getTermios()
		ev.Hist = dumpSources(srcs)

		for _, r := range recs {
			r.mu.Lock()
			ev.Writes = append(ev.Writes, append([]string{}, r.writes...))
			r.writes = nil
			r.mu.Unlock()
		}

		// The marker lets the parent see everything written until the return.
		parkN++
		ev.N = parkN
		fmt.Fprintf(os.Stdout, "\x1b]7777;%d\x07", parkN)
		emit(ev)

		if ev.Ev != "return" {
			break
		}
	}
}

func describe(shell *readline.Shell) {
	ev := &proto.Event{Ev: "describe", Binds: map[string]map[string]proto.BindDesc{}, BindsQ: map[string]map[string]proto.BindDesc{}, VarsDesc: map[string]string{}}

	for km, binds := range shell.Config.Binds {
		m, q := map[string]proto.BindDesc{}, map[string]proto.BindDesc{}
		for seq, b := range binds {
			m[seq] = proto.BindDesc{Action: b.Action, Macro: b.Macro}
			q[strconv.QuoteToASCII(seq)] = proto.BindDesc{Action: strconv.QuoteToASCII(b.Action), Macro: b.Macro}
		}

		ev.Binds[km] = m
		ev.BindsQ[km] = q
	}

	for name := range shell.Keymap.Commands() {
		ev.Commands = append(ev.Commands, name)
	}

	sort.Strings(ev.Commands)

	for name, v := range shell.Config.Vars {
		ev.VarsDesc[name] = fmt.Sprintf("%T:%v", v, v)
	}

	emit(ev)
}

func configure(shell *readline.Shell, spec *proto.Spec, srcs *[]readline.History, recs *[]*recSource) {
	for _, v := range spec.Vars {
		switch v.Kind {
		case "bool":
			shell.Config.Set(v.Name, v.Val == "on")
		case "int":
			n := 0
			fmt.Sscanf(v.Val, "%d", &n)
			shell.Config.Set(v.Name, n)
		default:
			shell.Config.Set(v.Name, v.Val)
		}
	}

	if p := spec.Prompt; p != nil {
		shell.Prompt.Primary(func() string { return p.Primary })

		if p.Right != "" {
			shell.Prompt.Right(func() string { return p.Right })
		}

		if p.HasSecond {
			shell.Prompt.Secondary(func() string { return p.Secondary })
		}

		if p.Transient != "" {
			shell.Prompt.Transient(func() string { return p.Transient })
		}
	}

	// History sources.
	if spec.NoHist {
		shell.History.Delete()
	}

	for _, h := range spec.Hist {
		var src readline.History

		switch h.Kind {
		case "mem":
			src = readline.NewInMemoryHistory()
			for _, e := range h.Entries {
				src.Write(e)
			}
		case "file":
			os.Remove(h.Path)

			pre, _ := readline.NewHistoryFromFile(h.Path)
			for _, e := range h.Entries {
				pre.Write(e)
			}

			src, _ = readline.NewHistoryFromFile(h.Path)
		case "rec":
			r := &recSource{items: append([]string{}, h.Entries...)}
			*recs = append(*recs, r)
			src = r
		}

		if src != nil {
			shell.History.Add(h.Name, src)
			*srcs = append(*srcs, src)
		}
	}

	if c := spec.Completer; c != nil {
		shell.Completer = makeCompleter(c)
	}

	switch spec.Multiline {
	case "backslash":
		shell.AcceptMultiline = func(line []rune) bool {
			return len(line) == 0 || line[len(line)-1] != '\\'
		}
	case "quotes":
		shell.AcceptMultiline = func(line []rune) bool {
			n := 0
			for _, r := range line {
				if r == '"' {
					n++
				}
			}

			return n%2 == 0
		}
	}

	// Probes.
	probes := map[string]func(){}

	for _, p := range spec.Probes {
		p := p

		switch {
		case p.Kind == "log":
			probes[p.Name] = func() {
				emit(&proto.Event{Ev: "probe", Name: p.Name, Caller: string(shell.Keys.Caller()), After: parkN})
			}
		case p.Kind == "panic":
			probes[p.Name] = func() {
				emit(&proto.Event{Ev: "probe", Name: p.Name, Caller: string(shell.Keys.Caller()), After: parkN})
				panic("verif probe panic: " + p.Name)
			}
		case p.Kind == "hold":
			ch := make(chan struct{}, 1)
			curMu.Lock()
			holds[p.Name] = ch
			curMu.Unlock()
			probes[p.Name] = func() { holdProbe(p.Name, ch) }
		case strings.HasPrefix(p.Kind, "setlocal:"):
			km := strings.TrimPrefix(p.Kind, "setlocal:")
			probes[p.Name] = func() {
				emit(&proto.Event{Ev: "probe", Name: p.Name, Caller: string(shell.Keys.Caller()), After: parkN})
				shell.Keymap.SetLocal(km)
			}
		case strings.HasPrefix(p.Kind, "setmain:"):
			km := strings.TrimPrefix(p.Kind, "setmain:")
			probes[p.Name] = func() {
				emit(&proto.Event{Ev: "probe", Name: p.Name, Caller: string(shell.Keys.Caller()), After: parkN})
				shell.Keymap.SetMain(km)
			}
		}
	}

	if len(probes) > 0 {
		shell.Keymap.Register(probes)
	}

	for _, km := range spec.ClearKm {
		shell.Config.Binds[km] = map[string]inputrc.Bind{}
	}

	for _, b := range spec.Binds {
		shell.Config.Bind(b.Keymap, b.Seq, b.Action, b.Macro)
	}

	// Command log: every registered command re-registered under its own name,
	// wrapped in a logger. Public API only.
	if spec.LogCmds {
		wrapped := map[string]func(){}

		for name, fn := range shell.Keymap.Commands() {
			name, fn := name, fn
			if _, isProbe := probes[name]; isProbe {
				continue
			}

			wrapped[name] = func() {
				emit(&proto.Event{Ev: "cmd", Name: name, Caller: string(shell.Keys.Caller()), After: parkN})
				fn()
			}
		}

		shell.Keymap.Register(wrapped)
	}
}

func makeCompleter(c *proto.CompSpec) func(line []rune, cursor int) readline.Completions {
	return func(line []rune, cursor int) readline.Completions {
		emit(&proto.Event{Ev: "complete", CompLine: string(line), CompPos: cursor, After: parkN})

		vals := make([]readline.Completion, 0, len(c.Cands))

		for _, cd := range c.Cands {
			disp := cd.Disp
			if disp == "" {
				disp = cd.Value
			}

			vals = append(vals, readline.Completion{Value: cd.Value, Display: disp, Description: cd.Desc, Tag: cd.Tag})
		}

		comps := readline.CompleteRaw(vals)

		if cursor > len(line) {
			cursor = len(line)
		}

		switch c.Mode {
		case "prefix":
			i := cursor
			for i > 0 && line[i-1] != ' ' {
				i--
			}

			comps.PREFIX = string(line[i:cursor])
		case "fixed":
			n := c.PrefixN
			if n > cursor {
				n = cursor
			}

			comps.PREFIX = string(line[cursor-n : cursor])
		}

		if c.NoSpace == "*" {
			comps = comps.NoSpace()
		} else if c.NoSpace != "" {
			comps = comps.NoSpace([]rune(c.NoSpace)...)
		}

		if c.List {
			comps = comps.DisplayList(c.ListTags...)
		}

		if c.NoSort {
			comps = comps.NoSort()
		}

		if c.Usage != "" {
			comps = comps.Usage("%s", c.Usage)
		}

		if c.Message != "" {
			comps = comps.Merge(readline.CompleteMessage("%s", c.Message))
		}

		return comps
	}
}

// runParse parses an inputrc text with the requested options and handler.
func runParse(ps *proto.ParseSpec, tag int) {
	ev := &proto.Event{Ev: "parsed", Tag: tag}

	defer func() {
		if r := recover(); r != nil {
			ev = &proto.Event{Ev: "panic", Tag: tag, Value: fmt.Sprint(r), Stack: string(debug.Stack()), Msg: "parse"}
		}

		emit(ev)
	}()

	var cfg *inputrc.Config
	if ps.Handler == "default" {
		cfg = inputrc.NewDefaultConfig()
	} else {
		cfg = inputrc.NewConfig()
	}

	cfg.ReadFileFunc = func(name string) ([]byte, error) {
		if msg, ok := ps.ReadErr[name]; ok {
			return nil, errors.New(msg)
		}

		if b, ok := ps.Files[name]; ok {
			return b, nil
		}

		return nil, os.ErrNotExist
	}

	opts := []inputrc.Option{inputrc.WithHaltOnErr(ps.HaltOnErr), inputrc.WithStrict(ps.Strict)}
	if ps.App != "" {
		opts = append(opts, inputrc.WithApp(ps.App))
	}

	if ps.Term != "" {
		opts = append(opts, inputrc.WithTerm(ps.Term))
	}

	if ps.Mode != "" {
		opts = append(opts, inputrc.WithMode(ps.Mode))
	}

	if ps.Name != "" {
		opts = append(opts, inputrc.WithName(ps.Name))
	}

	var err error

	switch ps.API {
	case "reader":
		err = inputrc.Parse(strings.NewReader(string(ps.Text)), cfg, opts...)
	case "file":
		path := scratch + "/parse.inputrc"
		os.WriteFile(path, ps.Text, 0o600)
		err = inputrc.ParseFile(path, cfg, opts...)
	default:
		err = inputrc.ParseBytes(ps.Text, cfg, opts...)
	}

	if err != nil {
		ev.HasErr = true
		ev.Err = err.Error()
	}

	for _, b := range cfg.Binds {
		ev.NBinds += len(b)
	}

	ev.NVars = len(cfg.Vars)
}
