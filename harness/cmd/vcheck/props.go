package main

// props is the table of registered checks: which tests decide a property, how
// many cases each tier runs and over how many processes.
var props = map[string]propCfg{
	"C02": {ID: "C02", Level: "exploration",
		Tests: []testCfg{{Name: "TestC02", Quick: 12000, Thorough: 240000, QShards: 8, TShards: 16}},
		Assumptions: []string{
			"printable = unicode.IsPrint and not TAB; autopairs/autocomplete/history-autosuggest off, no user binds, no completer",
			"non-ASCII text is only required to survive under convert-meta off, input-meta on, output-meta on (the statement's 'usual UTF-8 meta settings')",
			"the pty and the kernel line discipline in raw mode deliver bytes unchanged",
		}},
}
