package main

// props is the table of registered checks: which tests decide a property, how
// many cases each tier runs and over how many processes.
var props = map[string]propCfg{
	"C01": {ID: "C01", Level: "exploration",
		Tests: []testCfg{{Name: "TestC01", Quick: 9600, Thorough: 256000, QShards: 16, TShards: 16}},
		Assumptions: []string{
			"work a session can ask for is bounded by the generators (scripts <= 120 tokens, numeric arguments almost always <= 3 digits, buffers <= ~2k runes), so the 10 s watchdog is not honest slowness; a hang is only reported after it reproduces in a fresh child",
			"an injected EOF / EIO is returned by the reader the library reads the terminal through (core.Stdin); a persistent fault answers every later read the same way",
			"VISUAL/EDITOR are empty, so edit-command-line fails instead of launching an editor on the pty",
		}},
	"C02": {ID: "C02", Level: "exploration",
		Tests: []testCfg{{Name: "TestC02", Quick: 12000, Thorough: 240000, QShards: 8, TShards: 16}},
		Assumptions: []string{
			"printable = unicode.IsPrint and not TAB; autopairs/autocomplete/history-autosuggest off, no user binds, no completer",
			"non-ASCII text is only required to survive under convert-meta off, input-meta on, output-meta on (the statement's 'usual UTF-8 meta settings')",
			"the pty and the kernel line discipline in raw mode deliver bytes unchanged",
		}},
	"C05": {ID: "C05", Level: "exploration",
		Tests: []testCfg{{Name: "TestC05", Quick: 2400, Thorough: 60000, QShards: 16, TShards: 16}},
		Assumptions: []string{
			"every ESC byte is marked lone (all schedules cut right after it) or prefix (no schedule cuts right after it): the statement's timing carve-out, applied in every mode because local keymaps (isearch, menu-select, vi-opp) make the same distinction in emacs mode",
			"only valid UTF-8 is typed (a terminal in UTF-8 mode sends complete characters); invalid bytes stay in C01",
			"autocomplete / history-autosuggest off (their documented purpose is to act on redisplay); keyboard-macro commands are left to C18; vi-select-inside is only reachable through its prefix bind",
			"two known findings are excluded by construction (schedules always cut after C-c / C-g; vi operator + character text objects / j,k replaced) and reported from dedicated regress cases",
		}},
	"C06": {ID: "C06", Level: "exploration",
		Tests: []testCfg{{Name: "TestC06", Quick: 6400, Thorough: 200000, QShards: 16, TShards: 16}},
		Assumptions: []string{
			"history-autosuggest / autocomplete / autopairs off (forward motions accept the suggestion by documented design)",
			"clause (c) is judged only when the named command actually ran from a state at rest (no local keymap, no pending argument, numeric-argument keys did not edit the buffer)",
			"Cursor.Pos() clamps itself: the range clause mostly checks that Line and Cursor agree; the vi and selection clauses carry the weight",
		}},
	"C07": {ID: "C07", Level: "exploration",
		Tests: []testCfg{{Name: "TestC07", Quick: 4800, Thorough: 100000, QShards: 16, TShards: 16}},
		Assumptions: []string{
			"one command per read; cursor positions are not part of the statement and are not compared",
			"line identity = history slot, tracked by the walk index model (previous/next-history and vi k/j clamp at the ends)",
			"undo may merge consecutive typed characters into one step (every buffer it produces must still have been shown)",
		}},
	"C08": {ID: "C08", Level: "exploration",
		Tests: []testCfg{{Name: "TestC08", Quick: 6400, Thorough: 120000, QShards: 16, TShards: 16}},
		Assumptions: []string{
			"history-size 0 may mean unset or record nothing (the statement is silent), but the same for every source",
			"sources are compared through Len()/GetLine() before the first call and after each return; the file-backed source trims what it stores",
		}},
	"C10": {ID: "C10", Level: "fault_enumeration",
		Tests: []testCfg{{Name: "TestC10", Quick: 1600, Thorough: 32000, QShards: 16, TShards: 16}},
		Fuzz:  []fuzzCfg{{Name: "FuzzC10File", Secs: 90}},
		Assumptions: []string{
			"a process death during the single O_APPEND write leaves a prefix of the record (no fsync / power-loss claim)",
			"lines are valid UTF-8; blank lines are documented not to be stored; time stamps are not compared",
			"'returned' is read modulo surrounding whitespace and consecutive duplicates (both sides collapsed)",
		}},
	"C12": {ID: "C12", Level: "exploration",
		Tests: []testCfg{{Name: "TestC12", Quick: 24000, Thorough: 400000, QShards: 8, TShards: 16}},
		Fuzz:  []fuzzCfg{{Name: "FuzzC12Parse", Secs: 120}},
		Assumptions: []string{
			"inputs are bounded (<= ~1 MiB) so the 10 s watchdog is orders of magnitude above honest work",
			"the parse runs in the child process (cmd/rlapp) with debug.SetMaxStack(64 MiB)",
		}},
	"C13": {ID: "C13", Level: "exploration",
		Tests: []testCfg{{Name: "TestC13", Quick: 40000, Thorough: 800000, QShards: 8, TShards: 16}},
		Fuzz:  []fuzzCfg{{Name: "FuzzC13Conds", Secs: 90}},
		Assumptions: []string{
			"only well-formed programs in the documented notation; upper-case key names only under Control-; term names without '-'; application names compared case-insensitively",
			"which keymap an $include inherits/leaves is not stated: included files set their own keymap first and the includer re-issues its own after",
			"sequences compared modulo Meta-x == ESC x, the one equivalence the library documents",
		}},
	"C16": {ID: "C16", Level: "exploration",
		Tests: []testCfg{{Name: "TestC16", Quick: 6400, Thorough: 160000, QShards: 16, TShards: 16}},
		Assumptions: []string{
			"one command per read; convert-meta off so multi-byte text can be typed",
			"directly consecutive kills may accumulate in the ring (GNU behaviour) or not: both accepted, the statement is silent",
			"vi: when the deleted characters reach the end of the line the cursor cannot stay at the same point, so put-before is not required to restore there",
			"known finding multibyte-word excluded by construction (word kills only get ASCII buffers)",
		}},
	"C17": {ID: "C17", Level: "exploration",
		Tests: []testCfg{{Name: "TestC17", Quick: 4800, Thorough: 120000, QShards: 16, TShards: 16}},
		Assumptions: []string{
			"keys one per read (keeps C05's argument-key findings out); convert-meta off",
			"dd / yy are not motions and are not generated; line motions j/k are not in the statement's list",
			"after the operator a still-open local keymap is left with ESC so both sessions are compared at rest",
		}},
	"C18": {ID: "C18", Level: "exploration",
		Tests: []testCfg{{Name: "TestC18", Quick: 4800, Thorough: 100000, QShards: 16, TShards: 16}},
		Assumptions: []string{
			"one key per read in both sessions; K never contains the macro-control keys nor accept",
			"cases where K itself is not deterministic (first pass typed vs typed while recording differ) are discarded and counted",
			"known finding lone-esc-in-macro excluded by construction (ESC followed by a key that forms an ESC-prefixed binding of vi-insert) and reported from a regress case",
		}},
	"C19": {ID: "C19", Level: "exploration",
		Tests: []testCfg{{Name: "TestC19", Quick: 200000, Thorough: 4000000, QShards: 4, TShards: 16}},
		Fuzz:  []fuzzCfg{{Name: "FuzzC19Codec", Secs: 90}},
		Assumptions: []string{
			"domain = runes 0x00-0xFF plus printable Unicode (unicode.IsPrint); non-printable runes above 0xFF are outside the statement",
		}},
}
