// vcheck is the driver registered in MANIFEST.json:
//
//	vcheck run <id> --tier quick|thorough
//	vcheck replay <file>
//
// It rebuilds the application under test and the checks from /repo's current
// working tree, shards the run over processes, merges the shard statistics
// into /verif/evidence/<id>.json and sets the exit code: 0 held, 1 violation
// (with a VIOLATION line), 2 infrastructure trouble / inconclusive.
package main

import (
	"bufio"
	"bytes"
	"context"
	"encoding/json"
	"fmt"
	"os"
	"os/exec"
	"path/filepath"
	"regexp"
	"sort"
	"strconv"
	"strings"
	"sync"
	"time"
)

type testCfg struct {
	Name     string
	Quick    int // rapid checks in total (split over shards); 0 = not a rapid test (run once on shard 0)
	Thorough int
	QShards  int
	TShards  int
	Race     bool // thorough: child built with -race
	NoChild  bool
}

type fuzzCfg struct {
	Name string
	Secs int
}

type propCfg struct {
	ID          string
	Level       string
	Tests       []testCfg
	Fuzz        []fuzzCfg // thorough only
	Assumptions []string
}

var root = getenv("VERIF_ROOT", "/verif")

func getenv(k, d string) string {
	if v := os.Getenv(k); v != "" {
		return v
	}

	return d
}

func goEnv() []string {
	env := os.Environ()
	env = append(env, "GOFLAGS=-mod=mod", "GOPROXY=off", "GOSUMDB=off", "GOTOOLCHAIN=local", "CGO_ENABLED=1")

	return env
}

func goBin() string { return getenv("VERIF_GO", "go1.26.8") }

// devModfile: development aid only (never set by a registered command). With
// VERIF_DEV_MODFILE the library is taken from the tree that go.mod file's
// replace directive names (a scratch worktree carrying a seeded change)
// instead of /repo, so several seeded changes can be tried at once without
// touching /repo. Evidence and replays then go to VERIF_DEV_OUT.
func devModfile() []string {
	if m := os.Getenv("VERIF_DEV_MODFILE"); m != "" {
		return []string{"-modfile", m}
	}

	return nil
}

func outDir(name string) string {
	if d := os.Getenv("VERIF_DEV_OUT"); d != "" {
		return filepath.Join(d, name)
	}

	return filepath.Join(root, name)
}

func build(runDir string, race bool) (rlapp, tests string, err error) {
	harness := filepath.Join(root, "harness")
	rlapp = filepath.Join(runDir, "rlapp")
	tests = filepath.Join(runDir, "checks.test")

	args := []string{"build", "-tags", "verif", "-o", rlapp}
	args = append(args, devModfile()...)

	if race {
		args = append(args, "-race")
	}

	args = append(args, "./cmd/rlapp")

	cmd := exec.Command(goBin(), args...)
	cmd.Dir, cmd.Env = harness, goEnv()

	if out, e := cmd.CombinedOutput(); e != nil {
		return "", "", fmt.Errorf("building rlapp: %v\n%s", e, out)
	}

	targs := append([]string{"test", "-c", "-tags", "verif", "-o", tests}, devModfile()...)
	cmd = exec.Command(goBin(), append(targs, "./checks")...)
	cmd.Dir, cmd.Env = harness, goEnv()

	if out, e := cmd.CombinedOutput(); e != nil {
		return "", "", fmt.Errorf("building checks: %v\n%s", e, out)
	}

	return rlapp, tests, nil
}

type statsFile struct {
	Property     string            `json:"property"`
	Test         string            `json:"test"`
	Evaluations  int               `json:"evaluations"`
	Sessions     int               `json:"sessions"`
	Keys         int               `json:"keys"`
	Discarded    int               `json:"discarded"`
	Excluded     int               `json:"excluded_known"`
	Classes      map[string]int    `json:"classes"`
	Hashes       []uint64          `json:"hashes"`
	Samples      []json.RawMessage `json:"samples"`
	Exhaustive   map[string]bool   `json:"exhaustive"`
	Known        map[string]int    `json:"known_seen"`
	Rule         string            `json:"rule"`
	Violations   []string          `json:"violations"`
	Inconclusive []string          `json:"inconclusive"`
	WallS        float64           `json:"wall_s"`
}

type shardResult struct {
	test     string
	shard    int
	exit     int
	out      []byte
	want     int
	passed   int
	timedOut bool
}

var rePassed = regexp.MustCompile(`\[rapid\] OK, passed (\d+) tests`)

func main() {
	if len(os.Args) < 3 {
		fmt.Fprintln(os.Stderr, "usage: vcheck run <id> [--tier quick|thorough] | vcheck replay <file>")
		os.Exit(2)
	}

	switch os.Args[1] {
	case "run":
		tier := getenv("VERIF_TIER", "quick")

		for i := 3; i < len(os.Args); i++ {
			if os.Args[i] == "--tier" && i+1 < len(os.Args) {
				tier = os.Args[i+1]
			}
		}

		os.Exit(run(os.Args[2], tier))
	case "replay":
		os.Exit(replay(os.Args[2]))
	default:
		fmt.Fprintln(os.Stderr, "unknown command")
		os.Exit(2)
	}
}

func seed() int {
	s, err := strconv.Atoi(getenv("VERIF_SEED", "1"))
	if err != nil || s <= 0 {
		s = 1 + (s%1000+1000)%1000
	}

	return s
}

func run(id, tier string) int {
	cfg, ok := props[id]
	if !ok {
		fmt.Fprintf(os.Stderr, "unknown property %s\n", id)
		return 2
	}

	start := time.Now()
	runDir := filepath.Join(root, ".run", fmt.Sprintf("%s-%d", id, os.Getpid()))
	os.MkdirAll(runDir, 0o755)

	defer os.RemoveAll(runDir)

	rlapp, tests, err := build(runDir, false)
	if err != nil {
		fmt.Fprintln(os.Stderr, err)
		return 2
	}

	// rapid replays saved fail files before anything else: none must be around
	os.RemoveAll(filepath.Join(root, "harness", "checks", "testdata", "rapid"))

	rlappRace := ""

	if tier == "thorough" {
		for _, t := range cfg.Tests {
			if t.Race && rlappRace == "" {
				raceDir := filepath.Join(runDir, "race")
				os.MkdirAll(raceDir, 0o755)

				if r, _, err := build(raceDir, true); err == nil {
					rlappRace = r
				} else {
					fmt.Fprintln(os.Stderr, "race build failed:", err)
					return 2
				}
			}
		}
	}

	replays := outDir("replays")
	os.MkdirAll(replays, 0o755)

	statsBase := filepath.Join(runDir, "stats")
	sd := seed()

	budget := 25 * time.Minute
	if tier == "thorough" {
		budget = 3 * time.Hour
	}

	ctx, cancel := context.WithTimeout(context.Background(), budget)
	defer cancel()

	var (
		wg      sync.WaitGroup
		mu      sync.Mutex
		results []*shardResult
		sem     = make(chan struct{}, maxParallel())
	)

	launch := func(t testCfg, shard, shards, checks int) {
		wg.Add(1)

		go func() {
			defer wg.Done()
			sem <- struct{}{}

			defer func() { <-sem }()

			args := []string{"-test.run", "^" + t.Name + "$", "-test.v", "-test.timeout", "0", "-test.count", "1"}
			if checks > 0 {
				args = append(args, fmt.Sprintf("-rapid.checks=%d", checks), fmt.Sprintf("-rapid.seed=%d", sd*1000+shard+1),
					"-rapid.nofailfile", "-rapid.shrinktime=45s")
			}

			cmd := exec.CommandContext(ctx, tests, args...)
			cmd.Dir = filepath.Join(root, "harness", "checks")
			app := rlapp

			if t.Race && rlappRace != "" {
				app = rlappRace
			}

			raceEnv := "VERIF_CHILD_GORACE="
			if t.Race && rlappRace != "" {
				raceEnv += "halt_on_error=0"
			}

			cmd.Env = append(goEnv(), raceEnv, "VERIF_RLAPP="+app, "VERIF_TIER="+tier, "VERIF_STATS="+statsBase, "VERIF_REPLAY_DIR="+replays,
				"VERIF_RUN_DIR="+runDir, "VERIF_ROOT="+root, fmt.Sprintf("VERIF_SHARD=%d", shard), fmt.Sprintf("VERIF_SHARDS=%d", shards),
				fmt.Sprintf("VERIF_SEED=%d", sd))

			var out bytes.Buffer
			cmd.Stdout, cmd.Stderr = &out, &out
			err := cmd.Run()

			r := &shardResult{test: t.Name, shard: shard, out: out.Bytes(), want: checks}

			if err != nil {
				r.exit = 1
				if ctx.Err() != nil {
					r.timedOut = true
				}
			}

			if m := rePassed.FindSubmatch(r.out); m != nil {
				r.passed, _ = strconv.Atoi(string(m[1]))
			}

			mu.Lock()
			results = append(results, r)
			mu.Unlock()
		}()
	}

	for _, t := range cfg.Tests {
		total, shards := t.Quick, t.QShards
		if tier == "thorough" {
			total, shards = t.Thorough, t.TShards
		}

		if shards <= 0 {
			shards = 1
		}

		if total == 0 && t.Race {
			continue // race-detector runs are thorough only
		}

		if total == 0 {
			launch(t, 0, 1, 0)
			continue
		}

		per := (total + shards - 1) / shards
		for s := 0; s < shards; s++ {
			launch(t, s, shards, per)
		}
	}

	wg.Wait()

	// native fuzzing (thorough only), one target after the other on all cores
	var fuzzNotes []string

	fuzzViol := 0

	if tier == "thorough" {
		for _, f := range cfg.Fuzz {
			note, viol := runFuzz(ctx, tests, runDir, replays, id, f)
			fuzzNotes = append(fuzzNotes, note)
			fuzzViol += viol
		}
	}

	// ---- merge
	sort.Slice(results, func(i, j int) bool {
		if results[i].test != results[j].test {
			return results[i].test < results[j].test
		}

		return results[i].shard < results[j].shard
	})

	violations := map[string]bool{}
	known := map[string]bool{}
	infra := []string{}

	for _, r := range results {
		sc := bufio.NewScanner(bytes.NewReader(r.out))
		sc.Buffer(make([]byte, 1<<20), 1<<26)

		sawViolation := false

		for sc.Scan() {
			line := sc.Text()

			switch {
			case strings.HasPrefix(line, "VIOLATION property="):
				violations[line] = true
				sawViolation = true
			case strings.HasPrefix(line, "  detail: ") && sawViolation:
				fmt.Println(line)
			case strings.HasPrefix(line, "KNOWN-FINDING: "):
				known[line] = true
			case strings.HasPrefix(line, "INCONCLUSIVE "):
				infra = append(infra, head(line, 600))
			case strings.HasPrefix(line, "NOTE "):
				fmt.Println(line)
			}
		}

		if r.timedOut {
			infra = append(infra, fmt.Sprintf("%s shard %d: stopped at the time budget", r.test, r.shard))
		} else if r.exit != 0 && !sawViolation {
			infra = append(infra, fmt.Sprintf("%s shard %d failed without a violation:\n%s", r.test, r.shard, tail(string(r.out), 3000)))
		} else if r.exit == 0 && r.want > 0 && r.passed < r.want {
			infra = append(infra, fmt.Sprintf("%s shard %d: rapid ran %d of %d cases", r.test, r.shard, r.passed, r.want))
		}
	}

	for line := range known {
		fmt.Println(line)
	}

	// every listed (status known) finding of the property is named on every run:
	// those this run's cases did not reach (thorough-only clauses, schedules that
	// do not deadlock every time) are marked as such
	if buf, err := os.ReadFile(filepath.Join(root, "known_findings.json")); err == nil {
		var kf struct {
			Findings []struct {
				Property, Status, Sig, What string
			} `json:"findings"`
		}

		if json.Unmarshal(buf, &kf) == nil {
			for _, f := range kf.Findings {
				if f.Property != cfg.ID || f.Status != "known" {
					continue
				}

				seen := false
				for line := range known {
					if strings.Contains(line, "[sig="+f.Sig+"]") {
						seen = true
					}
				}

				if !seen {
					fmt.Printf("KNOWN-FINDING: property=%s %s [sig=%s] (listed; not reached by the cases of this run)\n", cfg.ID, f.What, f.Sig)
				}
			}
		}
	}

	vl := make([]string, 0, len(violations))
	for line := range violations {
		vl = append(vl, line)
	}

	sort.Strings(vl)

	for _, line := range vl {
		fmt.Println(line)
	}

	ev := mergeEvidence(cfg, tier, sd, statsBase, time.Since(start).Seconds(), len(vl)+fuzzViol, fuzzNotes, infra)
	writeEvidence(id, ev)

	switch {
	case len(vl)+fuzzViol > 0:
		return 1
	case len(infra) > 0:
		for _, m := range infra {
			fmt.Fprintln(os.Stderr, "INFRA:", m)
		}

		return 2
	}

	fmt.Printf("OK property=%s tier=%s seed=%d evaluations=%d distinct_nontrivial=%d wall=%.0fs\n", id, tier, sd,
		ev["coverage"].(map[string]any)["evaluations"], ev["coverage"].(map[string]any)["distinct_nontrivial"], time.Since(start).Seconds())

	return 0
}

func maxParallel() int {
	n, err := strconv.Atoi(getenv("VERIF_PAR", "16"))
	if err != nil || n < 1 {
		n = 16
	}

	return n
}

func head(s string, n int) string {
	if len(s) > n {
		return s[:n] + "…"
	}

	return s
}

func tail(s string, n int) string {
	if len(s) > n {
		return "…" + s[len(s)-n:]
	}

	return s
}

func mergeEvidence(cfg propCfg, tier string, sd int, statsBase string, wall float64, violations int, fuzzNotes, infra []string) map[string]any {
	files, _ := filepath.Glob(statsBase + ".*.json")
	sort.Strings(files)

	hashes := map[uint64]struct{}{}
	classes := map[string]int{}
	exhaustive := map[string]bool{}
	knownSeen := map[string]int{}

	var samples []json.RawMessage

	evals, sessions, keys, discarded, excluded := 0, 0, 0, 0, 0
	rules := []string{}
	seenRule := map[string]bool{}

	for _, f := range files {
		buf, err := os.ReadFile(f)
		if err != nil {
			continue
		}

		var sf statsFile
		if json.Unmarshal(buf, &sf) != nil {
			continue
		}

		evals += sf.Evaluations
		sessions += sf.Sessions
		keys += sf.Keys
		discarded += sf.Discarded
		excluded += sf.Excluded

		for _, h := range sf.Hashes {
			hashes[h] = struct{}{}
		}

		for k, v := range sf.Classes {
			classes[k] += v
		}

		for k, v := range sf.Exhaustive {
			if v {
				exhaustive[k] = true
			}
		}

		for k, v := range sf.Known {
			knownSeen[k] += v
		}

		if len(samples) < 6 {
			for _, s := range sf.Samples {
				if len(samples) < 6 {
					samples = append(samples, s)
				}
			}
		}

		if sf.Rule != "" && !seenRule[sf.Test] {
			seenRule[sf.Test] = true
			rules = append(rules, sf.Test+": "+sf.Rule)
		}
	}

	sort.Strings(rules)

	cov := map[string]any{
		"evaluations":         evals,
		"distinct_nontrivial": len(hashes),
		"rule":                strings.Join(rules, " || "),
		"samples":             samples,
		"sessions":            sessions,
		"keys_delivered":      keys,
		"discarded":           discarded,
		"excluded_known":      excluded,
		"classes":             classes,
		"known_findings_seen": knownSeen,
	}

	if len(exhaustive) > 0 {
		parts := []string{}
		for k := range exhaustive {
			parts = append(parts, k)
		}

		sort.Strings(parts)
		cov["exhaustive_subspaces"] = parts
	}

	if len(fuzzNotes) > 0 {
		cov["fuzz"] = fuzzNotes
	}

	if len(infra) > 0 {
		cov["inconclusive"] = infra
	}

	if samples == nil {
		cov["samples"] = []any{}
	}

	return map[string]any{
		"property_id": cfg.ID,
		"tier":        tier,
		"seed":        sd,
		"level":       cfg.Level,
		"coverage":    cov,
		"assumptions": cfg.Assumptions,
		"wall_s":      wall,
		"violations":  violations,
	}
}

func writeEvidence(id string, ev map[string]any) {
	dir := outDir("evidence")
	os.MkdirAll(dir, 0o755)

	buf, _ := json.MarshalIndent(ev, "", " ")
	os.WriteFile(filepath.Join(dir, id+".json"), append(buf, '\n'), 0o644)
}

// runFuzz runs one native fuzz target for a bounded time with a fresh cache
// directory; a crasher is copied to the replays directory.
func runFuzz(ctx context.Context, tests, runDir, replays, id string, f fuzzCfg) (string, int) {
	cache := filepath.Join(runDir, "fuzzcache-"+f.Name)
	os.MkdirAll(cache, 0o755)

	pkgDir := filepath.Join(runDir, "fuzzpkg-"+f.Name)
	os.MkdirAll(pkgDir, 0o755)

	// seed corpus committed under harness/checks/testdata/fuzz/<name> is read
	// relative to the working directory: run in a copy so crashers land in runDir.
	src := filepath.Join(root, "harness", "checks", "testdata", "fuzz", f.Name)
	dst := filepath.Join(pkgDir, "testdata", "fuzz", f.Name)
	os.MkdirAll(dst, 0o755)

	if entries, err := os.ReadDir(src); err == nil {
		for _, e := range entries {
			if b, err := os.ReadFile(filepath.Join(src, e.Name())); err == nil {
				os.WriteFile(filepath.Join(dst, e.Name()), b, 0o644)
			}
		}
	}

	cmd := exec.CommandContext(ctx, tests, "-test.run", "^$", "-test.fuzz", "^"+f.Name+"$", "-test.fuzztime", fmt.Sprintf("%ds", f.Secs),
		"-test.fuzzcachedir", cache, "-test.timeout", "0")
	cmd.Dir = pkgDir
	cmd.Env = append(goEnv(), "VERIF_ROOT="+root, "VERIF_TIER=thorough", "VERIF_RUN_DIR="+runDir)

	out, err := cmd.CombinedOutput()
	execs := ""

	for _, l := range strings.Split(string(out), "\n") {
		if strings.Contains(l, "execs:") {
			execs = strings.TrimSpace(l)
		}
	}

	if err == nil {
		return fmt.Sprintf("%s: %ds, no crasher; last status: %s", f.Name, f.Secs, execs), 0
	}

	// copy crashers
	viol := 0
	entries, _ := os.ReadDir(dst)

	for _, e := range entries {
		if _, err := os.Stat(filepath.Join(src, e.Name())); err == nil {
			continue
		}

		b, _ := os.ReadFile(filepath.Join(dst, e.Name()))
		p := filepath.Join(replays, fmt.Sprintf("%s-fuzz-%s-%s", id, f.Name, e.Name()))
		os.WriteFile(p, b, 0o644)
		fmt.Printf("VIOLATION property=%s replay=%s\n", id, p)

		viol++
	}

	if viol == 0 {
		fmt.Fprintf(os.Stderr, "INFRA: fuzz %s failed without a crasher:\n%s\n", f.Name, tail(string(out), 2000))
		return fmt.Sprintf("%s: failed without crasher", f.Name), 0
	}

	fmt.Println(tail(string(out), 1500))

	return fmt.Sprintf("%s: crasher found", f.Name), viol
}

func replay(file string) int {
	buf, err := os.ReadFile(file)
	if err != nil {
		fmt.Fprintln(os.Stderr, err)
		return 2
	}

	var r struct {
		Property string `json:"property"`
		Check    string `json:"check"`
	}

	if err := json.Unmarshal(buf, &r); err != nil || r.Property == "" {
		fmt.Fprintln(os.Stderr, "not a replay file (fuzz crashers are replayed by placing them under harness/checks/testdata/fuzz/<target>/)")
		return 2
	}

	cfg, ok := props[r.Property]
	if !ok {
		fmt.Fprintln(os.Stderr, "unknown property", r.Property)
		return 2
	}

	runDir := filepath.Join(root, ".run", fmt.Sprintf("replay-%d", os.Getpid()))
	os.MkdirAll(runDir, 0o755)

	defer os.RemoveAll(runDir)

	rlapp, tests, err := build(runDir, false)
	if err != nil {
		fmt.Fprintln(os.Stderr, err)
		return 2
	}

	abs, _ := filepath.Abs(file)
	code := 0

	for _, t := range cfg.Tests {
		cmd := exec.Command(tests, "-test.run", "^"+t.Name+"$", "-test.v", "-test.count", "1")
		cmd.Dir = filepath.Join(root, "harness", "checks")
		cmd.Env = append(goEnv(), "VERIF_RLAPP="+rlapp, "VERIF_REPLAY_FILE="+abs, "VERIF_REPLAY_DIR="+filepath.Join(root, "replays"),
			"VERIF_RUN_DIR="+runDir, "VERIF_ROOT="+root, "VERIF_SHARD=0")

		out, err := cmd.CombinedOutput()
		for _, l := range strings.Split(string(out), "\n") {
			if strings.HasPrefix(l, "VIOLATION") || strings.HasPrefix(l, "  detail:") || strings.HasPrefix(l, "REPLAY") || strings.HasPrefix(l, "KNOWN-FINDING") ||
				(os.Getenv("VERIF_TRACE") != "" && strings.HasPrefix(l, "TRACE")) {
				fmt.Println(l)
			}

			if strings.HasPrefix(l, "VIOLATION") {
				code = 1
			}
		}

		if err != nil && code == 0 {
			fmt.Fprintln(os.Stderr, tail(string(out), 2000))
			code = 2
		}
	}

	return code
}
