package rig

import (
	"fmt"
	"strings"
	"time"

	"verif/harness/proto"
)

// Stop is a point at which the driver gets control back: the library parked
// waiting for input, the call returned/panicked/was aborted, the session
// ended, the child died or the watchdog expired.
type Stop struct {
	Kind string // park | return | panic | aborted | end | died | hang | error
	Ev   *proto.Event
	Cmds []*proto.Event // cmd / probe / complete events since the previous stop

	X, V *Screen // screen copies (only with KeepScreens)
	Raw  []byte  // raw output since the previous stop (only with KeepRaw)

	Detail string // hang classification / crash output
}

// Session drives one session in lock-step.
type Session struct {
	C    *Child
	Spec *proto.Spec

	KeepScreens bool
	Stops       []*Stop
	Last        *Stop
	Keys        int // bytes delivered
	pendingCmds []*proto.Event
	ended       bool
	endEv       *proto.Event
	extra       []*proto.Event // async events (printf-done, synced, stacks)
	Describe    *proto.Event
	Configured  *proto.Event

	// asynchronous disturbances (C20)
	Holding     bool // a hold probe is blocked
	lastDump    *proto.Event
	latest      *proto.Event // park / return announced while settling
	settledOnce bool
	CallStarts  []*proto.Event
}

// SessionOpts are optional knobs for Start.
type SessionOpts struct {
	Cols, Rows  int
	StartRow    int // rows to scroll the emulator cursor down before the session
	KeepScreens bool
	KeepRaw     bool
}

// Start begins a session and waits for its first stop.
func (c *Child) Start(spec *proto.Spec, o SessionOpts) (*Session, *Stop) {
	if o.Cols == 0 {
		o.Cols = 80
	}

	if o.Rows == 0 {
		o.Rows = 24
	}

	c.nextID++
	spec.ID = c.nextID
	c.Sessions++

	c.Emu.Reset()
	c.SetSize(o.Cols, o.Rows)
	c.Emu.Reset()
	c.Emu.KeepRaw = o.KeepRaw
	c.keepShots = o.KeepScreens
	c.shots = nil
	c.glue, c.holdReport, c.heldCount = nil, false, 0

	for i := 0; i < o.StartRow; i++ {
		c.Emu.Feed([]byte("\n"))
	}

	s := &Session{C: c, Spec: spec, KeepScreens: o.KeepScreens}

	if err := c.sendOp(&proto.Op{Op: "session", Spec: spec}); err != nil {
		st := &Stop{Kind: "died", Detail: err.Error()}
		s.Last = st

		return s, st
	}

	return s, s.Next()
}

// Next waits for the next stop.
func (s *Session) Next() *Stop {
	st := s.wait()
	s.Stops = append(s.Stops, st)
	s.Last = st

	return st
}

func (s *Session) wait() *Stop {
	c := s.C
	timer := time.NewTimer(c.Timeout)

	defer timer.Stop()

	pending := s.latest
	s.latest = nil

	release := func() *Stop {
		st := &Stop{Kind: pending.Ev, Ev: pending, Cmds: s.pendingCmds}
		s.pendingCmds = nil

		if s.KeepScreens {
			if shot, ok := c.shots[pending.N]; ok {
				st.X, st.V = shot[0], shot[1]
				delete(c.shots, pending.N)
			} else {
				st.X, st.V = c.Emu.X.Clone(), c.Emu.V.Clone()
			}
		}

		if c.Emu.KeepRaw {
			st.Raw = c.Emu.TakeRaw()
		}

		return st
	}

	for {
		if pending != nil && (pending.N == 0 || c.lastMarker >= pending.N) {
			return release()
		}

		if pending == nil && s.endEv != nil {
			s.ended = true
			return &Stop{Kind: "end", Ev: s.endEv, Cmds: s.pendingCmds}
		}

		select {
		case data, ok := <-c.masterCh:
			if !ok {
				c.masterCh = nil
				continue
			}

			c.Emu.Feed(data)
		case ev, ok := <-c.evCh:
			if !ok {
				c.dead = true

				select {
				case <-c.waitCh:
				case <-time.After(3 * time.Second):
				}

				time.Sleep(20 * time.Millisecond)

				out := c.CrashOutput()
				c.closeAll()

				return &Stop{Kind: "died", Cmds: s.pendingCmds, Detail: out}
			}

			switch ev.Ev {
			case "park", "return", "aborted":
				pending = ev
			case "panic":
				pending = ev
			case "cmd", "probe", "complete", "probe-hold", "probe-released":
				s.pendingCmds = append(s.pendingCmds, ev)
			case "winch":
				c.WinchSeen = ev.Tag
			case "printf-done":
				c.PrintfDone++
			case "describe":
				s.Describe = ev
			case "configured":
				s.Configured = ev
			case "call-start":
				s.CallStarts = append(s.CallStarts, ev)
			case "session-end":
				s.endEv = ev
			case "error":
				return &Stop{Kind: "error", Ev: ev, Detail: ev.Msg}
			default:
				s.extra = append(s.extra, ev)
			}
		case <-timer.C:
			dump := c.goroutineDump()
			detail := ClassifyHang(dump) + "\n" + dump

			// A buffer of thousands of runes (a large numeric argument multiplied an
			// insertion) makes every redisplay honestly slow: not a liveness verdict.
			if s.Last != nil && s.Last.Kind == "park" && s.Last.Ev.RawLen > 2500 {
				detail = "slow: buffer of " + fmt.Sprint(s.Last.Ev.RawLen) + " runes\n" + detail
			}

			return &Stop{Kind: "hang", Cmds: s.pendingCmds, Detail: detail}
		}
	}
}

// Send delivers one chunk of bytes to the parked library as exactly one read
// (for chunks up to the library's 1024 byte read buffer) and waits for the
// next stop.
func (s *Session) Send(b []byte) *Stop {
	if s.Last == nil || s.Last.Kind != "park" {
		return &Stop{Kind: "error", Detail: "Send while not parked"}
	}

	s.Keys += len(b)
	s.C.sendGate(&proto.Gate{Op: "go", N: len(b)})
	s.C.master.Write(b)

	return s.Next()
}

// SendGlued arranges for glue to ride with the next cursor report (in the same
// write, after or before the report) and then sends b as a normal chunk.
func (s *Session) SendGlued(b, glue []byte, before bool) *Stop {
	s.C.glue = append([]byte{}, glue...)
	s.C.glueBefore = before
	s.Keys += len(glue)

	return s.Send(b)
}

// Fault answers the current park with an injected EOF or I/O error.
func (s *Session) Fault(kind string) *Stop {
	if s.Last == nil || s.Last.Kind != "park" {
		return &Stop{Kind: "error", Detail: "Fault while not parked"}
	}

	s.C.sendGate(&proto.Gate{Op: kind})

	return s.Next()
}

// Abort ends a call that is legitimately still waiting.
func (s *Session) Abort() *Stop {
	if s.Last == nil || s.Last.Kind != "park" {
		return &Stop{Kind: "error", Detail: "Abort while not parked"}
	}

	s.C.sendGate(&proto.Gate{Op: "abort"})

	return s.Next()
}

// Finish brings the session to its end whatever state it is in and returns
// false if the child had to be given up.
func (s *Session) Finish() bool {
	for i := 0; i < 64; i++ {
		if s.ended {
			return true
		}

		if s.C.dead {
			return false
		}

		st := s.Last

		switch {
		case st == nil:
			return false
		case st.Kind == "park":
			s.Abort()
		case st.Kind == "hang" || st.Kind == "died":
			return false
		case st.Kind == "end":
			return true
		default:
			s.Next()
		}
	}

	return false
}

// Describe of a stop for messages.
func (st *Stop) String() string {
	if st == nil {
		return "<nil>"
	}

	switch st.Kind {
	case "park":
		return fmt.Sprintf("park#%d(%s line=%q pos=%d main=%s local=%s)", st.Ev.N, st.Ev.Kind, st.Ev.Line, st.Ev.Pos, st.Ev.Main, st.Ev.Local)
	case "return":
		return fmt.Sprintf("return(line=%q err=%q)", st.Ev.Line, st.Ev.Err)
	case "panic":
		return fmt.Sprintf("panic(%s)", st.Ev.Value)
	default:
		d := st.Detail
		if len(d) > 300 {
			d = d[:300]
		}

		return st.Kind + ":" + d
	}
}

// Parse asks the child to parse an inputrc text and waits for the outcome.
func (c *Child) Parse(ps *proto.ParseSpec) *Stop {
	c.nextID++
	tag := c.nextID

	if err := c.sendOp(&proto.Op{Op: "parse", Parse: ps, Tag: tag}); err != nil {
		return &Stop{Kind: "died", Detail: err.Error()}
	}

	timer := time.NewTimer(c.Timeout)
	defer timer.Stop()

	for {
		select {
		case data, ok := <-c.masterCh:
			if !ok {
				c.masterCh = nil
				continue
			}

			c.Emu.Feed(data)
		case ev, ok := <-c.evCh:
			if !ok {
				c.dead = true

				select {
				case <-c.waitCh:
				case <-time.After(3 * time.Second):
				}

				time.Sleep(20 * time.Millisecond)

				out := c.CrashOutput()
				c.closeAll()

				return &Stop{Kind: "died", Detail: out}
			}

			if ev.Tag != tag {
				continue
			}

			switch ev.Ev {
			case "parsed":
				return &Stop{Kind: "parsed", Ev: ev}
			case "panic":
				return &Stop{Kind: "panic", Ev: ev}
			}
		case <-timer.C:
			dump := c.goroutineDump()
			return &Stop{Kind: "hang", Detail: classifyParseHang(dump) + "\n" + dump}
		}
	}
}

func classifyParseHang(dump string) string {
	for _, b := range strings.Split(dump, "\n\n") {
		if strings.Contains(b, "main.runParse") {
			first := strings.SplitN(b, "\n", 2)[0]
			if strings.Contains(first, "running") || strings.Contains(first, "runnable") {
				return "spin: " + first + "\n" + b + "\n----"
			}

			return "blocked: " + first + "\n" + b + "\n----"
		}
	}

	return "unknown"
}

// Stacks asks the (live) child for a dump of all its goroutines.
func (c *Child) Stacks() string {
	c.nextID++
	tag := c.nextID

	if err := c.sendOp(&proto.Op{Op: "stacks", Tag: tag}); err != nil {
		return "stacks: " + err.Error()
	}

	timer := time.NewTimer(5 * time.Second)
	defer timer.Stop()

	for {
		select {
		case data, ok := <-c.masterCh:
			if !ok {
				c.masterCh = nil
				continue
			}

			c.Emu.Feed(data)
		case ev, ok := <-c.evCh:
			if !ok {
				return "stacks: child gone"
			}

			if ev.Ev == "stacks" && ev.Tag == tag {
				return ev.Dump
			}
		case <-timer.C:
			return "stacks: timeout"
		}
	}
}

// LibraryStack extracts the goroutine that runs Readline from a dump.
func LibraryStack(dump string) string {
	for _, b := range strings.Split(dump, "\n\n") {
		if strings.Contains(b, "readline.(*Shell).Readline") {
			return b
		}
	}

	return ""
}

// CancelGlue forgets bytes that were to ride with the next cursor report.
func (c *Child) CancelGlue() { c.glue = nil }

// SetGlue arranges for b to ride in front of (or behind) the next cursor
// report the terminal sends, whoever asked for it, in the same write.
func (c *Child) SetGlue(b []byte, before bool) {
	c.glue = append([]byte{}, b...)
	c.glueBefore = before
}

// GluePending reports whether bytes given to SetGlue are still waiting for a report.
func (c *Child) GluePending() bool { return len(c.glue) > 0 }
