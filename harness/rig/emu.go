package rig

import (
	"fmt"
	"strings"
	"unicode"
	"unicode/utf8"
)

// Cell is one character cell of the emulated screen.
type Cell struct {
	R    rune   // 0 = blank
	Comb []rune // combining marks attached
	W    int8   // 1 or 2 for a base cell, 0 for the right half of a wide cell
}

// Screen is one VT100-style screen. Variant selects how erase commands behave
// while a wrap is pending (cursor parked on the last column after writing it):
// xterm/VT100 erase from the last column inclusive, VTE-style terminals treat
// the cursor as past the margin and erase nothing.
type Screen struct {
	W, H    int
	Rows    [][]Cell
	Row     int
	Col     int
	Pending bool // deferred autowrap
	VTE     bool // variant
	saved   [3]int

	LastStyle   string // last DECSCUSR parameter seen ("" = none)
	CursorShown bool
	Scrolled    int // total rows scrolled off the top
}

func newScreen(w, h int, vte bool) *Screen {
	s := &Screen{W: w, H: h, VTE: vte, CursorShown: true}
	s.Rows = make([][]Cell, h)

	for i := range s.Rows {
		s.Rows[i] = make([]Cell, w)
	}

	return s
}

func (s *Screen) blankRow() []Cell { return make([]Cell, s.W) }

// resize keeps the top-left content (no reflow), like a plain VT.
func (s *Screen) resize(w, h int) {
	rows := make([][]Cell, h)
	for i := range rows {
		rows[i] = make([]Cell, w)

		if i < len(s.Rows) {
			copy(rows[i], s.Rows[i])
		}
	}

	s.Rows, s.W, s.H = rows, w, h

	if s.Row >= h {
		s.Row = h - 1
	}

	if s.Col >= w {
		s.Col = w - 1
	}

	s.Pending = false
}

func (s *Screen) scrollUp() {
	copy(s.Rows, s.Rows[1:])
	s.Rows[s.H-1] = s.blankRow()
	s.Scrolled++
}

func (s *Screen) scrollDown() {
	copy(s.Rows[1:], s.Rows[:s.H-1])
	s.Rows[0] = s.blankRow()
}

func (s *Screen) lineFeed() {
	if s.Row == s.H-1 {
		s.scrollUp()
	} else {
		s.Row++
	}
}

// clearCell blanks a cell, taking care of the other half of a wide character.
func (s *Screen) clearCell(r, c int) {
	if c < 0 || c >= s.W {
		return
	}

	cell := s.Rows[r][c]
	if cell.W == 0 && cell.R != 0 && c > 0 {
		s.Rows[r][c-1] = Cell{}
	}

	if cell.W == 2 && c+1 < s.W {
		s.Rows[r][c+1] = Cell{}
	}

	s.Rows[r][c] = Cell{}
}

func (s *Screen) put(r rune) {
	w := RuneWidth(r)

	if w == 0 {
		// Combining mark: attach to the previous base cell.
		c := s.Col
		if !s.Pending {
			c--
		}

		if c >= 0 && s.Rows[s.Row][c].W == 0 && c > 0 {
			c--
		}

		if c >= 0 && s.Rows[s.Row][c].R != 0 {
			s.Rows[s.Row][c].Comb = append(append([]rune{}, s.Rows[s.Row][c].Comb...), r)
		}

		return
	}

	if s.Pending {
		s.Col = 0
		s.Pending = false
		s.lineFeed()
	}

	if w == 2 && s.Col+2 > s.W {
		// A wide character that does not fit wraps whole.
		if s.W < 2 {
			return
		}

		s.Col = 0
		s.lineFeed()
	}

	s.clearCell(s.Row, s.Col)

	if w == 2 {
		s.clearCell(s.Row, s.Col+1)
		s.Rows[s.Row][s.Col] = Cell{R: r, W: 2}
		s.Rows[s.Row][s.Col+1] = Cell{R: r, W: 0}
	} else {
		s.Rows[s.Row][s.Col] = Cell{R: r, W: 1}
	}

	s.Col += w
	if s.Col >= s.W {
		s.Col = s.W - 1
		s.Pending = true
	}
}

func (s *Screen) eraseInLine(mode int) {
	switch mode {
	case 0:
		if s.Pending && s.VTE {
			return
		}

		for c := s.Col; c < s.W; c++ {
			s.clearCell(s.Row, c)
		}
	case 1:
		for c := 0; c <= s.Col && c < s.W; c++ {
			s.clearCell(s.Row, c)
		}
	case 2:
		s.Rows[s.Row] = s.blankRow()
	}
}

func (s *Screen) eraseInDisplay(mode int) {
	switch mode {
	case 0:
		s.eraseInLine(0)

		for r := s.Row + 1; r < s.H; r++ {
			s.Rows[r] = s.blankRow()
		}
	case 1:
		s.eraseInLine(1)

		for r := 0; r < s.Row; r++ {
			s.Rows[r] = s.blankRow()
		}
	case 2, 3:
		for r := 0; r < s.H; r++ {
			s.Rows[r] = s.blankRow()
		}
	}
}

func clamp(v, lo, hi int) int {
	if v < lo {
		return lo
	}

	if v > hi {
		return hi
	}

	return v
}

func (s *Screen) csi(private byte, inter byte, params []int, final byte) {
	p := func(i, def int) int {
		if i < len(params) && params[i] > 0 {
			return params[i]
		}

		return def
	}
	p0 := func(i int) int {
		if i < len(params) && params[i] >= 0 {
			return params[i]
		}

		return 0
	}

	if private != 0 {
		if private == '?' && (final == 'h' || final == 'l') {
			for _, v := range params {
				if v == 25 {
					s.CursorShown = final == 'h'
				}
			}
		}

		return
	}

	if inter == ' ' && final == 'q' {
		s.LastStyle = fmt.Sprint(p0(0))
		return
	}

	if inter != 0 {
		return
	}

	switch final {
	case 'A':
		s.Row = clamp(s.Row-p(0, 1), 0, s.H-1)
		s.Pending = false
	case 'B', 'e':
		s.Row = clamp(s.Row+p(0, 1), 0, s.H-1)
		s.Pending = false
	case 'C', 'a':
		s.Col = clamp(s.Col+p(0, 1), 0, s.W-1)
		s.Pending = false
	case 'D':
		s.Col = clamp(s.Col-p(0, 1), 0, s.W-1)
		s.Pending = false
	case 'E':
		s.Row = clamp(s.Row+p(0, 1), 0, s.H-1)
		s.Col = 0
		s.Pending = false
	case 'F':
		s.Row = clamp(s.Row-p(0, 1), 0, s.H-1)
		s.Col = 0
		s.Pending = false
	case 'G', '`':
		s.Col = clamp(p(0, 1)-1, 0, s.W-1)
		s.Pending = false
	case 'd':
		s.Row = clamp(p(0, 1)-1, 0, s.H-1)
		s.Pending = false
	case 'H', 'f':
		s.Row = clamp(p(0, 1)-1, 0, s.H-1)
		s.Col = clamp(p(1, 1)-1, 0, s.W-1)
		s.Pending = false
	case 'J':
		s.eraseInDisplay(p0(0))
	case 'K':
		s.eraseInLine(p0(0))
	case 'X':
		n := p(0, 1)
		if s.Pending && s.VTE {
			return
		}

		for c := s.Col; c < s.Col+n && c < s.W; c++ {
			s.clearCell(s.Row, c)
		}
	case 'P':
		n := p(0, 1)
		row := s.Rows[s.Row]

		for c := s.Col; c < s.W; c++ {
			if c+n < s.W {
				row[c] = row[c+n]
			} else {
				row[c] = Cell{}
			}
		}
	case '@':
		n := p(0, 1)
		row := s.Rows[s.Row]

		for c := s.W - 1; c >= s.Col; c-- {
			if c-n >= s.Col {
				row[c] = row[c-n]
			} else {
				row[c] = Cell{}
			}
		}
	case 'L':
		n := p(0, 1)
		for i := 0; i < n; i++ {
			copy(s.Rows[s.Row+1:], s.Rows[s.Row:s.H-1])
			s.Rows[s.Row] = s.blankRow()
		}
	case 'M':
		n := p(0, 1)
		for i := 0; i < n; i++ {
			copy(s.Rows[s.Row:], s.Rows[s.Row+1:])
			s.Rows[s.H-1] = s.blankRow()
		}
	case 's':
		s.saved = [3]int{s.Row, s.Col, b2i(s.Pending)}
	case 'u':
		s.Row, s.Col, s.Pending = clamp(s.saved[0], 0, s.H-1), clamp(s.saved[1], 0, s.W-1), s.saved[2] == 1
	}
}

func b2i(b bool) int {
	if b {
		return 1
	}

	return 0
}

// Emu parses the byte stream written by the library and drives two screens,
// one per erase-while-wrap-pending interpretation.
type Emu struct {
	X, V *Screen

	// parser state
	state   int
	private byte
	inter   byte
	params  []int
	cur     int
	hasCur  bool
	osc     []byte
	utf     []byte

	// OnReport is called for each cursor position query (CSI 6 n).
	OnReport func()
	// OnMarker is called for each OSC 7777 marker.
	OnMarker func(kind, n int)

	Raw       []byte // everything fed since the last TakeRaw
	KeepRaw   bool
	Unhandled map[string]int
	Bells     int
}

const (
	stGround = iota
	stEsc
	stCSI
	stOSC
	stOSCEsc
	stCharset
)

// NewEmu creates an emulator of the given size.
func NewEmu(w, h int) *Emu {
	return &Emu{X: newScreen(w, h, false), V: newScreen(w, h, true), Unhandled: map[string]int{}}
}

// Resize changes the screen size.
func (e *Emu) Resize(w, h int) {
	e.X.resize(w, h)
	e.V.resize(w, h)
}

// Reset clears the screens and homes the cursor (between sessions).
func (e *Emu) Reset() {
	w, h := e.X.W, e.X.H
	e.X, e.V = newScreen(w, h, false), newScreen(w, h, true)
	e.state = stGround
	e.utf = nil
	e.Raw = nil
}

// TakeRaw returns and clears the raw byte log.
func (e *Emu) TakeRaw() []byte {
	r := e.Raw
	e.Raw = nil

	return r
}

// Report is the CPR answer for the current cursor (from the xterm screen).
func (e *Emu) Report() string {
	return fmt.Sprintf("\x1b[%d;%dR", e.X.Row+1, e.X.Col+1)
}

func (e *Emu) both(f func(s *Screen)) {
	f(e.X)
	f(e.V)
}

// Feed processes output bytes.
func (e *Emu) Feed(data []byte) {
	if e.KeepRaw {
		e.Raw = append(e.Raw, data...)
	}

	for _, b := range data {
		e.feedByte(b)
	}
}

func (e *Emu) feedByte(b byte) {
	switch e.state {
	case stGround:
		if len(e.utf) > 0 {
			if b&0xC0 == 0x80 {
				e.utf = append(e.utf, b)
				if utf8.FullRune(e.utf) {
					r, _ := utf8.DecodeRune(e.utf)
					e.utf = nil
					e.both(func(s *Screen) { s.put(r) })
				}

				return
			}
			// invalid sequence: show a replacement and reprocess b
			e.utf = nil
			e.both(func(s *Screen) { s.put(utf8.RuneError) })
		}

		switch {
		case b == 0x1b:
			e.state = stEsc
		case b == '\r':
			e.both(func(s *Screen) { s.Col = 0; s.Pending = false })
		case b == '\n' || b == 0x0b || b == 0x0c:
			e.both(func(s *Screen) { s.Pending = false; s.lineFeed() })
		case b == 0x08:
			e.both(func(s *Screen) {
				if s.Col > 0 {
					s.Col--
				}

				s.Pending = false
			})
		case b == '\t':
			e.both(func(s *Screen) {
				n := (s.Col/8 + 1) * 8
				if n > s.W-1 {
					n = s.W - 1
				}

				s.Col = n
				s.Pending = false
			})
		case b == 0x07:
			e.Bells++
		case b < 0x20 || b == 0x7f:
			// other C0: ignored
		case b < 0x80:
			e.both(func(s *Screen) { s.put(rune(b)) })
		case b >= 0xC2 && b <= 0xF4:
			e.utf = []byte{b}
		default:
			e.both(func(s *Screen) { s.put(utf8.RuneError) })
		}
	case stEsc:
		switch b {
		case '[':
			e.state = stCSI
			e.private, e.inter = 0, 0
			e.params = e.params[:0]
			e.cur, e.hasCur = 0, false
		case ']':
			e.state = stOSC
			e.osc = e.osc[:0]
		case '7':
			e.both(func(s *Screen) { s.saved = [3]int{s.Row, s.Col, b2i(s.Pending)} })
			e.state = stGround
		case '8':
			e.both(func(s *Screen) {
				s.Row, s.Col, s.Pending = clamp(s.saved[0], 0, s.H-1), clamp(s.saved[1], 0, s.W-1), s.saved[2] == 1
			})
			e.state = stGround
		case 'M':
			e.both(func(s *Screen) {
				if s.Row == 0 {
					s.scrollDown()
				} else {
					s.Row--
				}

				s.Pending = false
			})
			e.state = stGround
		case 'D':
			e.both(func(s *Screen) { s.Pending = false; s.lineFeed() })
			e.state = stGround
		case 'E':
			e.both(func(s *Screen) { s.Pending = false; s.Col = 0; s.lineFeed() })
			e.state = stGround
		case 'c':
			w, h := e.X.W, e.X.H
			e.X, e.V = newScreen(w, h, false), newScreen(w, h, true)
			e.state = stGround
		case '(', ')', '*', '+', '#', '%':
			e.state = stCharset
		case 0x1b:
			// stay
		default:
			e.Unhandled["ESC "+string(rune(b))]++
			e.state = stGround
		}
	case stCharset:
		e.state = stGround
	case stCSI:
		switch {
		case b >= '0' && b <= '9':
			e.cur = e.cur*10 + int(b-'0')
			if e.cur > 100000 {
				e.cur = 100000
			}

			e.hasCur = true
		case b == ';' || b == ':':
			if e.hasCur {
				e.params = append(e.params, e.cur)
			} else {
				e.params = append(e.params, -1)
			}

			e.cur, e.hasCur = 0, false
		case b == '?' || b == '>' || b == '<' || b == '=':
			e.private = b
		case b >= 0x20 && b <= 0x2f:
			e.inter = b
		case b >= 0x40 && b <= 0x7e:
			if e.hasCur {
				e.params = append(e.params, e.cur)
			} else if len(e.params) > 0 {
				e.params = append(e.params, -1)
			}

			e.state = stGround
			e.dispatchCSI(b)
		case b == 0x1b:
			e.state = stEsc
		case b == '\r' || b == '\n' || b == 0x08:
			// C0 inside CSI is executed
			st := e.state
			e.state = stGround
			e.feedByte(b)
			e.state = st
		default:
			e.state = stGround
		}
	case stOSC:
		switch b {
		case 0x07:
			e.finishOSC()
			e.state = stGround
		case 0x1b:
			e.state = stOSCEsc
		default:
			if len(e.osc) < 256 {
				e.osc = append(e.osc, b)
			}
		}
	case stOSCEsc:
		if b == '\\' {
			e.finishOSC()
			e.state = stGround
		} else {
			e.state = stOSC
		}
	}
}

func (e *Emu) finishOSC() {
	s := string(e.osc)
	for _, pre := range []string{"7777;", "7778;"} {
		if strings.HasPrefix(s, pre) {
			n := 0
			fmt.Sscanf(s[len(pre):], "%d", &n)

			if e.OnMarker != nil {
				kind := 7777
				if pre == "7778;" {
					kind = 7778
				}

				e.OnMarker(kind, n)
			}
		}
	}
}

func (e *Emu) dispatchCSI(final byte) {
	if e.private == 0 && e.inter == 0 && final == 'n' {
		if len(e.params) > 0 && e.params[0] == 6 && e.OnReport != nil {
			e.OnReport()
		}

		return
	}

	if e.private == 0 && e.inter == 0 && final == 'm' {
		return
	}

	switch final {
	case 'A', 'B', 'C', 'D', 'E', 'F', 'G', 'H', 'J', 'K', 'L', 'M', 'P', 'X', '@', 'a', 'd', 'e', 'f', 's', 'u', '`', 'q', 'h', 'l':
	default:
		e.Unhandled[fmt.Sprintf("CSI %c%c%c", e.private, e.inter, final)]++
	}

	params := append([]int{}, e.params...)
	private, inter := e.private, e.inter
	e.both(func(s *Screen) { s.csi(private, inter, params, final) })
}

// RowText renders one row as text (wide right halves skipped, blanks as
// spaces, trailing blanks trimmed).
func (s *Screen) RowText(r int) string {
	var sb strings.Builder

	for c := 0; c < s.W; c++ {
		cell := s.Rows[r][c]

		switch {
		case cell.R == 0:
			sb.WriteByte(' ')
		case cell.W == 0:
		default:
			sb.WriteRune(cell.R)

			for _, m := range cell.Comb {
				sb.WriteRune(m)
			}
		}
	}

	return strings.TrimRight(sb.String(), " ")
}

// Dump renders the whole screen for diagnostics.
func (s *Screen) Dump() []string {
	out := make([]string, s.H)
	for r := range out {
		out[r] = s.RowText(r)
	}

	for len(out) > 0 && out[len(out)-1] == "" {
		out = out[:len(out)-1]
	}

	return out
}

// Clone copies the screen.
func (s *Screen) Clone() *Screen {
	c := *s
	c.Rows = make([][]Cell, len(s.Rows))

	for i := range s.Rows {
		c.Rows[i] = append([]Cell(nil), s.Rows[i]...)
	}

	return &c
}

// RuneWidth is the emulator's fixed width table: Mn/Me/Cf -> 0, East Asian
// wide/fullwidth -> 2, else 1. Generators stay inside ranges where every
// mainstream terminal (and the library's width function) agrees.
func RuneWidth(r rune) int {
	switch {
	case r == 0:
		return 0
	case r < 0x300:
		if r == 0xAD {
			return 1
		}

		return 1
	case unicode.In(r, unicode.Mn, unicode.Me, unicode.Cf):
		return 0
	case r >= 0x1100 && r <= 0x115F,
		r >= 0x2E80 && r <= 0x303E,
		r >= 0x3041 && r <= 0x33FF,
		r >= 0x3400 && r <= 0x4DBF,
		r >= 0x4E00 && r <= 0x9FFF,
		r >= 0xA000 && r <= 0xA4CF,
		r >= 0xA960 && r <= 0xA97F,
		r >= 0xAC00 && r <= 0xD7A3,
		r >= 0xF900 && r <= 0xFAFF,
		r >= 0xFE30 && r <= 0xFE6F,
		r >= 0xFF00 && r <= 0xFF60,
		r >= 0xFFE0 && r <= 0xFFE6,
		r >= 0x1F300 && r <= 0x1F64F,
		r >= 0x1F900 && r <= 0x1F9FF,
		r >= 0x20000 && r <= 0x2FFFD,
		r >= 0x30000 && r <= 0x3FFFD:
		return 2
	}

	return 1
}

// StringWidth sums RuneWidth.
func StringWidth(s string) int {
	n := 0
	for _, r := range s {
		n += RuneWidth(r)
	}

	return n
}
