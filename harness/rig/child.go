// Package rig is the parent side of the terminal rig: it owns the pty master,
// the VT100 emulator, the child application and the lock-step session driver.
package rig

import (
	"bufio"
	"encoding/json"
	"errors"
	"fmt"
	"os"
	"os/exec"
	"path/filepath"
	"strings"
	"sync"
	"syscall"
	"time"
	"unsafe"

	"golang.org/x/sys/unix"

	"verif/harness/proto"
)

// Child is one running rlapp process with its pty.
type Child struct {
	cmd     *exec.Cmd
	master  *os.File
	slave   *os.File
	gateW   *os.File
	opsW    *os.File
	Scratch string

	masterCh chan []byte
	evCh     chan *proto.Event
	waitCh   chan error

	crashMu sync.Mutex
	crash   []byte

	Emu        *Emu
	lastMarker int
	lastSync   int
	nextID     int
	dead       bool

	// answers to cursor reports
	glue       []byte // appended to the next report, once
	glueBefore bool   // glue goes in front of the report
	holdReport bool   // do not answer reports; count them
	heldCount  int
	Reports    int
	raceOff    map[string]int

	// asynchronous disturbances (C20), cumulative over the life of the process
	WinchSent, WinchSeen   int
	PrintfSent, PrintfDone int

	keepShots bool
	shots     map[int][2]*Screen

	Timeout  time.Duration
	Sessions int
}

func openPty() (master, slave *os.File, err error) {
	m, err := os.OpenFile("/dev/ptmx", os.O_RDWR|syscall.O_NOCTTY, 0)
	if err != nil {
		return nil, nil, err
	}

	var unlock int32
	if _, _, e := syscall.Syscall(syscall.SYS_IOCTL, m.Fd(), syscall.TIOCSPTLCK, uintptr(unsafe.Pointer(&unlock))); e != 0 {
		m.Close()
		return nil, nil, e
	}

	var n uint32
	if _, _, e := syscall.Syscall(syscall.SYS_IOCTL, m.Fd(), syscall.TIOCGPTN, uintptr(unsafe.Pointer(&n))); e != 0 {
		m.Close()
		return nil, nil, e
	}

	s, err := os.OpenFile(fmt.Sprintf("/dev/pts/%d", n), os.O_RDWR|syscall.O_NOCTTY, 0)
	if err != nil {
		m.Close()
		return nil, nil, err
	}

	return m, s, nil
}

// StartChild launches rlapp (path from bin) on a fresh pty.
func StartChild(bin, scratch string) (*Child, error) {
	master, slave, err := openPty()
	if err != nil {
		return nil, err
	}

	gateR, gateW, _ := os.Pipe()
	evR, evW, _ := os.Pipe()
	opsR, opsW, _ := os.Pipe()
	crashR, crashW, _ := os.Pipe()

	if err := os.MkdirAll(scratch, 0o700); err != nil {
		return nil, err
	}

	home := scratch + "/home"
	os.MkdirAll(home, 0o700)

	cmd := exec.Command(bin)
	cmd.Stdin, cmd.Stdout, cmd.Stderr = slave, slave, slave
	cmd.ExtraFiles = []*os.File{gateR, evW, opsR, crashW}
	cmd.Env = []string{
		"TERM=xterm", "HOME=" + home, "VISUAL=", "EDITOR=", "PATH=/nonexistent",
		"VERIF_SCRATCH=" + scratch, "LANG=C.UTF-8", "USER=verif",
		"GOTRACEBACK=crash",
	}
	if v := os.Getenv("VERIF_CHILD_GORACE"); v != "" {
		// the report would otherwise go to fd 2, which is the terminal
		cmd.Env = append(cmd.Env, "GORACE="+v+" log_path="+scratch+"/race")
	}

	// Own session but NO controlling terminal: the kernel then never sends a
	// SIGWINCH of its own when the window size is set, so a resize reaches the
	// child only when a check sends the signal explicitly (C20 owns the schedule;
	// every other check must not be disturbed by a stray signal whose delivery
	// time depends on machine load).
	cmd.SysProcAttr = &syscall.SysProcAttr{Setsid: true}

	if err := cmd.Start(); err != nil {
		return nil, err
	}

	gateR.Close()
	evW.Close()
	opsR.Close()
	crashW.Close()

	c := &Child{
		cmd: cmd, master: master, slave: slave, gateW: gateW, opsW: opsW, Scratch: scratch,
		masterCh: make(chan []byte, 256), evCh: make(chan *proto.Event, 1024), waitCh: make(chan error, 1),
		Emu: NewEmu(80, 24), Timeout: 10 * time.Second,
	}

	c.Emu.OnMarker = func(kind, n int) {
		if kind == 7777 {
			c.lastMarker = n

			// the screens exactly as they were when the marker came out of the pty:
			// what follows in the same chunk already belongs to the next step
			if c.keepShots {
				if c.shots == nil || len(c.shots) > 8 {
					c.shots = map[int][2]*Screen{}
				}

				c.shots[n] = [2]*Screen{c.Emu.X.Clone(), c.Emu.V.Clone()}
			}
		} else {
			c.lastSync = n
		}
	}
	c.Emu.OnReport = c.answerReport

	go func() {
		for {
			buf := make([]byte, 65536)

			n, err := master.Read(buf)
			if n > 0 {
				c.masterCh <- buf[:n]
			}

			if err != nil {
				close(c.masterCh)
				return
			}
		}
	}()

	go func() {
		rd := bufio.NewReaderSize(evR, 1<<20)

		for {
			line, err := rd.ReadBytes('\n')
			if len(line) > 1 {
				ev := new(proto.Event)
				if jerr := json.Unmarshal(line, ev); jerr == nil {
					c.evCh <- ev
				} else {
					c.evCh <- &proto.Event{Ev: "error", Msg: "bad event: " + jerr.Error()}
				}
			}

			if err != nil {
				close(c.evCh)
				evR.Close()

				return
			}
		}
	}()

	go func() {
		buf := make([]byte, 65536)

		for {
			n, err := crashR.Read(buf)
			if n > 0 {
				c.crashMu.Lock()
				if len(c.crash) < 4<<20 {
					c.crash = append(c.crash, buf[:n]...)
				}
				c.crashMu.Unlock()
			}

			if err != nil {
				crashR.Close()
				return
			}
		}
	}()

	go func() { c.waitCh <- cmd.Wait() }()

	// wait for ready
	select {
	case ev, ok := <-c.evCh:
		if !ok || ev.Ev != "ready" {
			c.Kill()
			return nil, fmt.Errorf("child did not become ready: %v", ev)
		}
	case <-time.After(20 * time.Second):
		c.Kill()
		return nil, errors.New("child start timeout")
	}

	return c, nil
}

// CrashOutput returns what the runtime wrote on the crash pipe.
func (c *Child) CrashOutput() string {
	c.crashMu.Lock()
	defer c.crashMu.Unlock()

	out := string(c.crash)

	// reports of the race detector not taken yet (children built with -race)
	out += c.takeRaceLogLocked()

	return out
}

// TakeRaceLog returns what the race detector has reported since the last call
// (children built with -race; the log goes to a file because fd 2 is the terminal).
func (c *Child) TakeRaceLog() string {
	c.crashMu.Lock()
	defer c.crashMu.Unlock()

	return c.takeRaceLogLocked()
}

func (c *Child) takeRaceLogLocked() string {
	logs, _ := filepath.Glob(c.Scratch + "/race.*")
	out := ""

	for _, l := range logs {
		b, err := os.ReadFile(l)
		if err != nil {
			continue
		}

		if c.raceOff == nil {
			c.raceOff = map[string]int{}
		}

		if off := c.raceOff[l]; off < len(b) {
			out += string(b[off:])
			c.raceOff[l] = len(b)
		}
	}

	return out
}

// Dead reports whether the child is gone.
func (c *Child) Dead() bool { return c.dead }

// Kill terminates the child and releases the pty.
func (c *Child) Kill() {
	if c.cmd.Process != nil {
		c.cmd.Process.Kill()
	}

	c.dead = true
	c.closeAll()
}

func (c *Child) closeAll() {
	c.gateW.Close()
	c.opsW.Close()

	if c.master != nil {
		c.master.Close()
	}

	if c.slave != nil {
		c.slave.Close()
	}
	// drain so reader goroutines can finish
	go func() {
		for range c.masterCh {
		}
	}()
	go func() {
		for range c.evCh {
		}
	}()
}

// Quit asks the child to exit and reaps it.
func (c *Child) Quit() {
	if !c.dead {
		c.sendOp(&proto.Op{Op: "quit"})

		select {
		case <-c.waitCh:
		case <-time.After(2 * time.Second):
			c.cmd.Process.Kill()
		}

		c.dead = true
		c.closeAll()
	}
}

func (c *Child) sendOp(op *proto.Op) error {
	buf, err := json.Marshal(op)
	if err != nil {
		return err
	}

	_, err = c.opsW.Write(append(buf, '\n'))

	return err
}

func (c *Child) sendGate(g *proto.Gate) error {
	buf, _ := json.Marshal(g)
	_, err := c.gateW.Write(append(buf, '\n'))

	return err
}

// SetSize sets the terminal size on the pty (the kernel signals the child's
// foreground process group when the size really changed) and the emulator.
func (c *Child) SetSize(cols, rows int) error {
	ws := &unix.Winsize{Col: uint16(cols), Row: uint16(rows)}
	if err := unix.IoctlSetWinsize(int(c.master.Fd()), unix.TIOCSWINSZ, ws); err != nil {
		return err
	}

	c.Emu.Resize(cols, rows)

	return nil
}

// Signal sends a signal to the child.
func (c *Child) Signal(sig syscall.Signal) { c.cmd.Process.Signal(sig) }

func (c *Child) answerReport() {
	c.Reports++

	if c.holdReport {
		c.heldCount++
		return
	}

	c.writeReport()
}

func (c *Child) writeReport() {
	rep := []byte(c.Emu.Report())

	if len(c.glue) > 0 {
		if c.glueBefore {
			rep = append(append([]byte{}, c.glue...), rep...)
		} else {
			rep = append(rep, c.glue...)
		}

		c.glue = nil
	}

	c.master.Write(rep)
}

// goroutineDump kills the child with SIGQUIT and returns the runtime's dump.
func (c *Child) goroutineDump() string {
	c.cmd.Process.Signal(syscall.SIGQUIT)

	select {
	case <-c.waitCh:
	case <-time.After(5 * time.Second):
		c.cmd.Process.Kill()
	}

	time.Sleep(50 * time.Millisecond)
	c.dead = true
	out := c.CrashOutput()
	c.closeAll()

	return out
}

// ClassifyHang reads a goroutine dump and says whether the goroutine running
// Readline is blocked (deadlock) or running library code (spin).
func ClassifyHang(dump string) string {
	blocks := strings.Split(dump, "\n\n")
	for _, b := range blocks {
		if !strings.Contains(b, "readline.(*Shell).Readline") {
			continue
		}

		head := strings.SplitN(b, "\n", 2)[0]
		first := head + "\n" + b + "\n----"

		switch {
		case strings.Contains(head, "chan receive"), strings.Contains(head, "chan send"),
			strings.Contains(head, "sync.Mutex"), strings.Contains(head, "sync.RWMutex"),
			strings.Contains(head, "[select"), strings.Contains(head, "semacquire"):
			return "deadlock: " + first
		case strings.Contains(head, "running"), strings.Contains(head, "runnable"):
			return "spin: " + first
		default:
			return "blocked: " + first
		}
	}

	return "unknown"
}
