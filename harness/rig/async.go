package rig

import (
	"fmt"
	"strings"
	"syscall"
	"time"

	"verif/harness/proto"
)

// Support for C20: disturbances delivered at moments the harness owns.

// HoldReports makes the emulator withhold its answers to cursor position
// queries (they are counted) until ReleaseReports.
func (c *Child) HoldReports() { c.holdReport, c.heldCount = true, 0 }

// Held is the number of queries seen and not answered yet.
func (c *Child) Held() int { return c.heldCount }

// ReleaseReports answers the withheld queries, in one write or one write each.
func (c *Child) ReleaseReports(merge bool) {
	n := c.heldCount
	c.holdReport, c.heldCount = false, 0

	if n == 0 {
		return
	}

	rep := []byte(c.Emu.Report())

	if merge {
		all := []byte{}
		for i := 0; i < n; i++ {
			all = append(all, rep...)
		}

		c.master.Write(all)

		return
	}

	for i := 0; i < n; i++ {
		c.master.Write(rep)
	}
}

// Winch sends one SIGWINCH.
func (c *Child) Winch() {
	c.WinchSent++
	c.cmd.Process.Signal(syscall.SIGWINCH)
}

// AsyncState is what the child's own goroutine dump says about the parties of
// an asynchronous disturbance.
type AsyncState struct {
	Main    string // parked | held | query | running | blocked:<state> | none
	Resize  string // idle | query | running | blocked:<state> | none
	Printfs int    // goroutines inside Shell.Printf / PrintTransientf
	Dump    string
}

func goroutineState(block string) string {
	head := strings.SplitN(block, "\n", 2)[0]
	i, j := strings.Index(head, "["), strings.LastIndex(head, "]")

	if i < 0 || j < i {
		return "?"
	}

	st := head[i+1 : j]
	if k := strings.Index(st, ","); k >= 0 {
		st = st[:k]
	}

	return st
}

// ParseAsyncState reads a runtime.Stack(all) dump of rlapp.
func ParseAsyncState(dump string) AsyncState {
	as := AsyncState{Main: "none", Resize: "none", Dump: dump}

	for _, b := range strings.Split(dump, "\n\n") {
		st := goroutineState(b)
		inQuery := strings.Contains(b, "core.(*Keys).GetCursorPos")
		busy := st == "running" || st == "runnable"

		switch {
		case strings.Contains(b, "display.WatchResize.func1"):
			switch {
			case busy:
				as.Resize = "running"
			case inQuery:
				as.Resize = "query"
			case st == "select" && !strings.Contains(b, "display.(*Engine).Refresh"):
				as.Resize = "idle"
			default:
				as.Resize = "blocked:" + st
			}
		case strings.Contains(b, "readline.(*Shell).Printf") || strings.Contains(b, "readline.(*Shell).PrintTransientf"):
			as.Printfs++
		case strings.Contains(b, "readline.(*Shell).Readline"):
			switch {
			case busy:
				as.Main = "running"
			case strings.Contains(b, "main.(*gate).Read"):
				as.Main = "parked"
			case inQuery:
				as.Main = "query"
			case strings.Contains(b, "main.holdProbe"):
				as.Main = "held"
			default:
				as.Main = "blocked:" + st
			}
		}
	}

	return as
}

// pump processes what the child has sent for a short while. It returns a
// terminal stop (died / panic / error) if one shows up.
func (s *Session) pump(d time.Duration) *Stop {
	c := s.C
	timer := time.NewTimer(d)

	defer timer.Stop()

	for {
		select {
		case data, ok := <-c.masterCh:
			if !ok {
				c.masterCh = nil
				continue
			}

			c.Emu.Feed(data)
		case ev, ok := <-c.evCh:
			if !ok {
				c.dead = true

				select {
				case <-c.waitCh:
				case <-time.After(3 * time.Second):
				}

				time.Sleep(20 * time.Millisecond)

				out := c.CrashOutput()
				c.closeAll()

				return &Stop{Kind: "died", Cmds: s.pendingCmds, Detail: out}
			}

			switch ev.Ev {
			case "park", "return", "aborted", "panic":
				s.latest = ev
			case "cmd", "probe", "complete", "probe-hold", "probe-released":
				s.pendingCmds = append(s.pendingCmds, ev)

				if ev.Ev == "probe-hold" {
					s.Holding = true
				}
			case "winch":
				c.WinchSeen = ev.Tag
			case "printf-done":
				c.PrintfDone++
			case "call-start":
				s.CallStarts = append(s.CallStarts, ev)
			case "session-end":
				s.endEv = ev
			case "error":
				return &Stop{Kind: "error", Ev: ev, Detail: ev.Msg}
			case "stacks":
				s.lastDump = ev
			default:
				s.extra = append(s.extra, ev)
			}
		case <-timer.C:
			return nil
		}
	}
}

// SettleWant says what Settle waits for.
type SettleWant struct {
	Main    string // parked | held | query: where the Readline goroutine must be
	Held    int    // with Main == query: withheld cursor queries that must have been seen (0: any)
	Blocked bool   // the other parties may be blocked in their own cursor query instead of done
}

// Settle waits, without relying on delays, until the child is at rest after a
// disturbance: every signal seen, the resize goroutine back in its select (or,
// with Blocked, waiting for a cursor report the emulator withholds), the
// Printf calls returned (same), the Readline goroutine where it is expected,
// and every announced marker out of the pty. The state is read from the
// child's own goroutine dump. A park announced meanwhile becomes the current stop.
func (s *Session) Settle(w SettleWant) *Stop {
	c := s.C
	deadline := time.Now().Add(c.Timeout)

	finish := func(kind string) *Stop {
		latest := s.latest
		s.latest = nil

		if latest != nil {
			kind = latest.Ev
		}

		st := &Stop{Kind: kind, Ev: latest, Cmds: s.pendingCmds}
		s.pendingCmds = nil

		if s.KeepScreens {
			st.X, st.V = c.Emu.X.Clone(), c.Emu.V.Clone()
		}

		if latest != nil || kind != "settled" {
			s.Stops = append(s.Stops, st)
		}

		if latest != nil {
			s.Last = st
		}

		return st
	}

	var as AsyncState

	for round := 0; ; round++ {
		if st := s.pump(2 * time.Millisecond); st != nil {
			return st
		}

		if s.latest != nil && s.latest.Ev != "park" {
			// the call ended (return / panic) while we were settling
			return finish(s.latest.Ev)
		}

		c.nextID++
		tag := c.nextID
		s.lastDump = nil

		if err := c.sendOp(&proto.Op{Op: "stacks", Tag: tag}); err != nil {
			return &Stop{Kind: "died", Detail: err.Error()}
		}

		for s.lastDump == nil || s.lastDump.Tag != tag {
			if st := s.pump(5 * time.Millisecond); st != nil {
				return st
			}

			if time.Now().After(deadline) {
				break
			}
		}

		if s.lastDump != nil {
			as = ParseAsyncState(s.lastDump.Dump)

			othersDone := as.Resize == "idle" && as.Printfs == 0 && c.PrintfDone >= c.PrintfSent
			if w.Blocked {
				othersDone = (as.Resize == "idle" || as.Resize == "query") && as.Resize != "running"
				// Printf goroutines may be inside their cursor query
			}

			markers := s.latest == nil || s.latest.N == 0 || c.lastMarker >= s.latest.N
			held := w.Main != "query" || w.Held == 0 || c.heldCount >= w.Held

			if c.WinchSeen >= c.WinchSent && othersDone && as.Main == w.Main && markers && held {
				// look once more: a signal seen by the child's own handler may not
				// have reached the library's goroutine the instant before
				if round > 0 && s.settledOnce {
					s.settledOnce = false
					return finish("settled")
				}

				s.settledOnce = true

				continue
			}

			s.settledOnce = false
		}

		if time.Now().After(deadline) {
			detail := fmt.Sprintf("not at rest after %s: main=%s resize=%s printf goroutines=%d (done %d/%d) signals seen %d/%d held queries %d", c.Timeout, as.Main, as.Resize, as.Printfs, c.PrintfDone, c.PrintfSent, c.WinchSeen, c.WinchSent, c.heldCount)
			dump := c.goroutineDump()

			return &Stop{Kind: "hang", Cmds: s.pendingCmds, Detail: ClassifyAsyncHang(as) + ": " + detail + "\n" + dump}
		}
	}
}

// ClassifyAsyncHang names the hang after the parties that are stuck.
func ClassifyAsyncHang(as AsyncState) string {
	stuck := []string{}

	if as.Main != "parked" && as.Main != "held" {
		stuck = append(stuck, "main="+as.Main)
	}

	if as.Resize != "idle" && as.Resize != "none" {
		stuck = append(stuck, "resize="+as.Resize)
	}

	if as.Printfs > 0 {
		stuck = append(stuck, "printf")
	}

	if len(stuck) == 0 {
		return "unsettled"
	}

	return "deadlock: " + strings.Join(stuck, ",")
}

// SendUntil delivers a chunk like Send but hands control back as soon as the
// command it runs is inside a hold probe (kind "held") or the emulator has seen
// a cursor query it withholds (kind "query"), whichever the caller arranged.
func (s *Session) SendUntil(b []byte) *Stop {
	if s.Last == nil || s.Last.Kind != "park" {
		return &Stop{Kind: "error", Detail: "SendUntil while not parked"}
	}

	c := s.C
	s.Keys += len(b)
	s.Holding = false
	c.sendGate(&proto.Gate{Op: "go", N: len(b)})
	c.master.Write(b)

	deadline := time.Now().Add(c.Timeout)
	s.latest = nil

	for {
		if st := s.pump(time.Millisecond); st != nil {
			return st
		}

		if latest := s.latest; latest != nil && (latest.N == 0 || c.lastMarker >= latest.N) {
			s.latest = nil
			st := &Stop{Kind: latest.Ev, Ev: latest, Cmds: s.pendingCmds}
			s.pendingCmds = nil

			if s.KeepScreens {
				st.X, st.V = c.Emu.X.Clone(), c.Emu.V.Clone()
			}

			s.Stops = append(s.Stops, st)
			s.Last = st

			return st
		}

		if s.latest == nil && s.Holding {
			return &Stop{Kind: "held"}
		}

		if s.latest == nil && c.holdReport && c.heldCount > 0 {
			return &Stop{Kind: "query"}
		}

		if time.Now().After(deadline) {
			dump := c.goroutineDump()

			return &Stop{Kind: "hang", Cmds: s.pendingCmds, Detail: ClassifyHang(dump) + "\n" + dump}
		}
	}
}

// Winch sends one SIGWINCH and waits until the child's own handler has seen
// it: signals sent faster than that are merged by the kernel, so a burst is
// a series of acknowledged signals (the library's goroutine, which takes a
// terminal round trip per signal, still finds them piling up).
func (s *Session) Winch() *Stop {
	c := s.C
	c.Winch()

	deadline := time.Now().Add(c.Timeout)

	for c.WinchSeen < c.WinchSent {
		if st := s.pump(200 * time.Microsecond); st != nil {
			return st
		}

		if time.Now().After(deadline) {
			return &Stop{Kind: "error", Detail: fmt.Sprintf("signal not seen by the child (%d/%d)", c.WinchSeen, c.WinchSent)}
		}
	}

	return nil
}

// Release lets a held probe command return.
func (s *Session) Release(probe string) {
	s.Holding = false
	s.C.sendOp(&proto.Op{Op: "release", Probe: probe})
}

// Printf asks the application to call Shell.Printf from another goroutine.
func (s *Session) Printf(text string, transient bool) {
	op := "printf"
	if transient {
		op = "transientf"
	}

	s.C.nextID++
	s.C.PrintfSent++
	s.C.sendOp(&proto.Op{Op: op, Text: text, Tag: s.C.nextID})
}

// NextOrDeadlock waits for the next stop like Next, but also recognises, from
// the child's goroutine dumps, the state in which every party is blocked
// reading the terminal for a cursor report while the emulator has answered
// every query it received: nothing will ever arrive, so this is a deadlock and
// there is no need to wait for the watchdog.
func (s *Session) NextOrDeadlock() *Stop {
	c := s.C
	deadline := time.Now().Add(c.Timeout)
	stable := 0

	for {
		if st := s.pump(3 * time.Millisecond); st != nil {
			return st
		}

		if latest := s.latest; latest != nil && (latest.N == 0 || c.lastMarker >= latest.N) {
			s.latest = nil
			st := &Stop{Kind: latest.Ev, Ev: latest, Cmds: s.pendingCmds}
			s.pendingCmds = nil

			if s.KeepScreens {
				st.X, st.V = c.Emu.X.Clone(), c.Emu.V.Clone()
			}

			s.Stops = append(s.Stops, st)
			s.Last = st

			return st
		}

		reports := c.Reports
		c.nextID++
		tag := c.nextID
		s.lastDump = nil

		if err := c.sendOp(&proto.Op{Op: "stacks", Tag: tag}); err != nil {
			return &Stop{Kind: "died", Detail: err.Error()}
		}

		for (s.lastDump == nil || s.lastDump.Tag != tag) && time.Now().Before(deadline) {
			if st := s.pump(3 * time.Millisecond); st != nil {
				return st
			}
		}

		if s.lastDump != nil && s.latest == nil {
			as := ParseAsyncState(s.lastDump.Dump)
			resizeStuck := as.Resize == "idle" || as.Resize == "query" || strings.HasPrefix(as.Resize, "blocked")
			mainStuck := as.Main == "query" || strings.HasPrefix(as.Main, "blocked")

			if mainStuck && resizeStuck && c.heldCount == 0 && c.Reports == reports && c.WinchSeen >= c.WinchSent {
				stable++
			} else {
				stable = 0
			}

			if stable >= 4 {
				dump := c.goroutineDump()

				return &Stop{Kind: "hang", Cmds: s.pendingCmds, Detail: fmt.Sprintf("deadlock: every cursor query was answered (%d) yet main=%s resize=%s printf goroutines=%d are still waiting for the terminal\n%s", c.Reports, as.Main, as.Resize, as.Printfs, dump)}
			}
		}

		if time.Now().After(deadline) {
			dump := c.goroutineDump()

			return &Stop{Kind: "hang", Cmds: s.pendingCmds, Detail: ClassifyHang(dump) + "\n" + dump}
		}
	}
}
