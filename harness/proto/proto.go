// Package proto holds the types exchanged between the parent (rig) and the
// child application under test (cmd/rlapp). One JSON object per line in each
// direction. Nothing here imports the library under test.
package proto

// File descriptors inherited by the child (0,1,2 are the pty slave).
const (
	FdGate  = 3 // parent -> child: answers to a park (read by the gate only)
	FdEvent = 4 // child -> parent: events
	FdOps   = 5 // parent -> child: sessions and asynchronous operations
	FdCrash = 6 // child -> parent: runtime crash output (debug.SetCrashOutput)
)

// Spec describes one session: a fresh shell, its configuration and the number
// of Readline calls to make on it.
type Spec struct {
	ID      int               `json:"id"`
	Inputrc string            `json:"inputrc"`
	Env     map[string]string `json:"env,omitempty"`
	App     string            `json:"app,omitempty"`
	Term    string            `json:"term,omitempty"`
	Mode    string            `json:"mode,omitempty"`

	Prompt    *PromptSpec `json:"prompt,omitempty"`
	Hist      []HistSpec  `json:"hist,omitempty"`
	NoHist    bool        `json:"nohist,omitempty"` // delete every history source
	Completer *CompSpec   `json:"completer,omitempty"`
	Multiline string      `json:"multiline,omitempty"` // "", "backslash", "quotes"

	Probes   []ProbeSpec `json:"probes,omitempty"`
	Binds    []BindSpec  `json:"binds,omitempty"`
	ClearKm  []string    `json:"clearkm,omitempty"` // keymaps emptied before Binds are applied
	Calls    int         `json:"calls"`
	LogCmds  bool        `json:"logcmds,omitempty"`
	Describe bool        `json:"describe,omitempty"` // send a describe event after configuration
	Vars     []VarSpec   `json:"vars,omitempty"`     // Config.Set after NewShell (typed)
}

// VarSpec is a variable forced through Config.Set after NewShell.
type VarSpec struct {
	Name string `json:"name"`
	Kind string `json:"kind"` // bool|int|string
	Val  string `json:"val"`
}

// PromptSpec sets the prompt strings.
type PromptSpec struct {
	Primary   string `json:"primary"`
	Right     string `json:"right,omitempty"`
	Secondary string `json:"secondary,omitempty"`
	Transient string `json:"transient,omitempty"`
	HasSecond bool   `json:"hassecond,omitempty"`
}

// HistSpec is one history source bound before the first call.
type HistSpec struct {
	Kind    string   `json:"kind"` // mem | file | rec
	Name    string   `json:"name"`
	Entries []string `json:"entries,omitempty"`
	Path    string   `json:"path,omitempty"` // file kind: path of the history file
}

// Cand is one completion candidate.
type Cand struct {
	Value string `json:"v"`
	Disp  string `json:"d,omitempty"`
	Desc  string `json:"desc,omitempty"`
	Tag   string `json:"tag,omitempty"`
}

// CompSpec is a table-driven completer.
type CompSpec struct {
	Cands    []Cand   `json:"cands"`
	Mode     string   `json:"mode"`              // "word": engine chosen prefix, "prefix": completer sets PREFIX (last blank-delimited word), "fixed": FixedPrefix taken as suffix of line[:cursor]
	PrefixN  int      `json:"prefixn,omitempty"` // mode=fixed: PREFIX = last PrefixN runes before the cursor
	NoSpace  string   `json:"nospace,omitempty"` // runes for NoSpace(); "*" for all
	List     bool     `json:"list,omitempty"`    // DisplayList()
	NoSort   bool     `json:"nosort,omitempty"`
	Usage    string   `json:"usage,omitempty"`
	Message  string   `json:"message,omitempty"`
	ListTags []string `json:"listtags,omitempty"`
}

// ProbeSpec registers a harness command under Name.
//
//	log          only logs its invocation
//	panic        panics
//	hold         blocks until released by an op
//	setlocal:km  calls Keymap.SetLocal(km)
//	setmain:km   calls Keymap.SetMain(km)
type ProbeSpec struct {
	Name string `json:"name"`
	Kind string `json:"kind"`
}

// BindSpec binds Seq (already unescaped) in Keymap.
type BindSpec struct {
	Keymap string `json:"km"`
	Seq    string `json:"seq"`
	Action string `json:"action"`
	Macro  bool   `json:"macro,omitempty"`
}

// ParseSpec asks the child to parse an inputrc text (no terminal involved).
type ParseSpec struct {
	Text      []byte            `json:"text"`
	Files     map[string][]byte `json:"files,omitempty"`   // served by the handler's ReadFile
	ReadErr   map[string]string `json:"readerr,omitempty"` // files whose read fails with this error
	HaltOnErr bool              `json:"halt,omitempty"`
	Strict    bool              `json:"strict,omitempty"`
	App       string            `json:"app,omitempty"`
	Term      string            `json:"term,omitempty"`
	Mode      string            `json:"mode,omitempty"`
	Name      string            `json:"name,omitempty"`
	Handler   string            `json:"handler,omitempty"` // config | default
	API       string            `json:"api,omitempty"`     // bytes | reader | file
}

// Op is a message on the ops pipe.
type Op struct {
	Parse *ParseSpec `json:"parse,omitempty"`
	Op    string     `json:"op"` // session | printf | release | stacks | quit | parse | describe | transientf
	Spec  *Spec      `json:"spec,omitempty"`
	Text  string     `json:"text,omitempty"`
	Probe string     `json:"probe,omitempty"`
	Tag   int        `json:"tag,omitempty"`
}

// Gate is an answer to a park, on the gate pipe.
type Gate struct {
	Op string `json:"op"` // go | eof | ioerr | abort
	N  int    `json:"n,omitempty"`
}

// Termios is a comparable copy of the terminal settings.
type Termios struct {
	Iflag, Oflag, Cflag, Lflag uint32
	Line                       uint8
	Cc                         [19]uint8
	Ispeed, Ospeed             uint32
	Err                        string `json:",omitempty"`
}

// Event is a message from the child.
type Event struct {
	Ev string `json:"ev"`
	// park
	N      int    `json:"n,omitempty"`
	Kind   string `json:"kind,omitempty"` // main | arg | other
	Line   string `json:"line"`
	Pos    int    `json:"pos"`
	RawLen int    `json:"rawlen"`
	Mark   int    `json:"mark"`
	SelAct bool   `json:"selact,omitempty"`
	SelB   int    `json:"selb"`
	SelE   int    `json:"sele"`
	Main   string `json:"main,omitempty"`
	Local  string `json:"local,omitempty"`
	Iter   bool   `json:"iter,omitempty"`
	Kill   string `json:"kill"`
	Hint   string `json:"hint,omitempty"`
	Rec    bool   `json:"rec,omitempty"`
	HLen   []int  `json:"hlen,omitempty"`
	Active string `json:"active,omitempty"`
	// cmd / probe
	Name   string `json:"name,omitempty"`
	Caller string `json:"caller,omitempty"`
	After  int    `json:"after,omitempty"`
	// return / panic
	Err     string   `json:"err,omitempty"`
	HasErr  bool     `json:"haserr,omitempty"`
	Value   string   `json:"value,omitempty"`
	Stack   string   `json:"stack,omitempty"`
	Termios *Termios `json:"termios,omitempty"`
	Call    int      `json:"call,omitempty"`
	// hist contents (after each call, and at start)
	Hist [][]string `json:"hist,omitempty"`
	// rec source writes
	Writes [][]string `json:"writes,omitempty"`
	// describe
	Binds    map[string]map[string]BindDesc `json:"binds,omitempty"`
	BindsQ   map[string]map[string]BindDesc `json:"bindsq,omitempty"` // same, sequences and actions Go-quoted (lossless for raw bytes)
	Commands []string                       `json:"commands,omitempty"`
	VarsDesc map[string]string              `json:"vars,omitempty"`
	// stacks
	Dump string `json:"dump,omitempty"`
	Tag  int    `json:"tag,omitempty"`
	// completer calls
	CompLine string `json:"compline,omitempty"`
	CompPos  int    `json:"comppos,omitempty"`
	// parsed
	NBinds int `json:"nbinds,omitempty"`
	NVars  int `json:"nvars,omitempty"`
	// generic
	Msg string `json:"msg,omitempty"`
}

// BindDesc is a bind as described by the child.
type BindDesc struct {
	Action string `json:"a"`
	Macro  bool   `json:"m,omitempty"`
}
