#!/usr/bin/env python3
"""Regenerates MANIFEST.json from the table below (kept in one place so the file stays valid)."""
import json, subprocess

hook_commits = ["f1ad3b2"]

RIG_NOTE = "Trusts the rig (pty, gate on core.Stdin through the verif hook, lock-step driver, VT100 emulator where used) and the kernel tty layer."

claimed = {
 "C01": dict(level="exploration", technique="property-based testing (rapid): generated configurations x key scripts over the full key alphabet (every registered command by name) x chunkings x injected EOF/EIO faults, run through real Readline calls on a pty; crash / watchdog / count-based spin oracle",
   text="Generated-input search for panics, fatal errors, deadlocks and busy loops: each case is a full session (configuration, history, completer, terminal size, 1-3 Readline calls) driven in lock-step through a gate on the library's terminal reader, so 'returned or blocked waiting for input' is an observed fact at every step; faults are injected at main-loop and mid-command reads. Exploration: unbounded input space, validity-predicate oracle.",
   note=RIG_NOTE + " Liveness is decided by a count (reads after a persistent fault) and otherwise by a 10 s watchdog with bounded generated work and confirmation in a fresh child.", ref="DESIGN.md §3 C01"),
 "C02": dict(level="exploration", technique="property-based testing (rapid): generated Unicode strings x chunkings x meta settings through a real pty session; identity oracle",
   text="Generated-input search: thousands of generated printable Unicode strings are typed byte-for-byte into a real Readline call on a pseudo-terminal under generated read chunkings and meta settings; the returned line must equal the typed text. Exploration is the right level: the domain (all strings x chunkings x settings) is unbounded and the oracle is exact (identity).",
   note=RIG_NOTE + " Preconditions from the documentation (autopairs/autocomplete/autosuggest off, no user binds).", ref="DESIGN.md §3 C02"),
 "C03": dict(level="exploration", technique="property-based testing (rapid), model-based: generated bind tables with prefix chains and macros x key strings, probe commands registered and bound through the public API; reference resolver (longest-match automaton) vs probe invocation log",
   text="The tested keymap is replaced by a generated table of probe commands; the same input is delivered one key per read (so every invocation is timed against the key that caused it) and in a single read; the log of probe invocations must equal an emission list of an independent reference resolver, which branches where the statement is silent.",
   note=RIG_NOTE + " Probes are ordinary commands registered with Keymap.Register and bound with Config.Bind.", ref="DESIGN.md §3 C03, appendix A.1"),
 "C04": dict(level="exploration", technique="property-based testing (rapid): generated editing sessions on a real pty; oracle = VT100 emulator grid and cursor vs an independent reference layout of (prompt, buffer, cursor, width), judged under both erase-at-margin interpretations",
   text="Every byte the library writes goes through the rig's VT100 emulator; at each wait of the main loop the grid is snapshotted at the moment the wait marker leaves the pty and compared with a layout computed from the API's buffer and cursor index only (wrap rule, wide runes wrapped whole, combining marks, TAB runs, continuation rows).",
   note=RIG_NOTE, ref="DESIGN.md §3 C04, appendix A.2"),
 "C05": dict(level="exploration", technique="property-based testing (rapid), differential / metamorphic: the same generated key bytes delivered under several read schedules (per token, random byte cuts, single paste, bytes glued to a cursor-position report) must give the same outcome",
   text="Schedules are owned by the harness: the gate delivers exactly the prescribed chunk to each read of the library and the emulated terminal can attach bytes to its cursor-position reports, so 'how bytes are split across reads' and 'arriving while the editor queries the cursor' are generated, shrinkable inputs; the oracle is equality of (line, error) or of the final editor state across schedules. Exploration over scripts x schedules.",
   note=RIG_NOTE + " ESC lone/prefix marking per the statement; valid UTF-8 only; two known findings excluded by construction and reported from regress cases.", ref="DESIGN.md §3 C05"),
 "C06": dict(level="exploration", technique="property-based testing (rapid): generated editor states (scripts over the full key alphabet) x every documented movement/copy command by name x numeric arguments; invariants at every input wait + metamorphic 'movement leaves the text unchanged'",
   text="Invariants on cursor, vi on-a-character rule and selection range are evaluated on the public-API snapshot taken at every main-loop input wait of every generated session; each named movement/copy command must leave the buffer text unchanged; a line returned by accept-line must equal the buffer at the preceding wait.",
   note=RIG_NOTE, ref="DESIGN.md §3 C06"),
 "C07": dict(level="exploration", technique="property-based testing (rapid) + bounded-exhaustive enumeration of command sequences (stateful / history-based): invariants over the observed snapshot sequence of real pty sessions",
   text="Every command sequence of length 3 (quick) / 5 (thorough) over a 13-command alphabet from two start states in emacs and vi modes is executed, and random sequences up to length 60 beyond; four history invariants (undo membership, reach-initial, undo^n redo^n = id, redo branch discarded by an edit) are checked over the buffers observed at every input wait. The exhaustive part is reported as exhaustive_subspaces inside an exploration-level record.",
   note=RIG_NOTE + " One command per read.", ref="DESIGN.md §3 C07"),
 "C08": dict(level="exploration", technique="property-based testing (rapid), model-based: generated source sets x prior contents x history-size x lines x accept variants through real Readline calls; per-source list model",
   text="For every generated combination the contents of every bound source (library in-memory, library file-backed, harness recording source) are read through the Source API before the call and after each return and compared with a per-source list model (append-once / skip rules of the statement).",
   note=RIG_NOTE, ref="DESIGN.md §3 C08"),
 "C09": dict(level="exploration", technique="property-based testing (rapid), model-based (stateful): generated histories x in-progress buffers x navigation / search sequences; set-valued walk index model (edits of visited entries, second Readline call on the same shell) + validity predicates for searches + source comparison",
   text="Sequences of history navigation, prefix/substring search and incremental search sessions are run one command per read; a set-valued index model predicts what the walk commands may show, validity predicates constrain what searches may put in the buffer, and the bound source is compared with its prior contents afterwards; entries shown are edited while walking (the stored entries must stay unchanged) and, after an accept, a second call on the same shell walks the history again.",
   note=RIG_NOTE + " One known finding (cancelled incremental search from an empty line) reported by signature.", ref="DESIGN.md §3 C09"),
 "C10": dict(level="fault_enumeration", technique="property-based testing (rapid) of generated histories + exhaustive enumeration of every truncation offset of the last append (crash points); list-model oracle; native fuzzing of file contents in the thorough tier",
   text="For each generated history every byte offset of the last record is used as a crash point (exhaustively for records up to 600 bytes, first/last 96 bytes plus spread offsets beyond): reopen must succeed, keep the completed entries in order, and a later append must be durable. The histories themselves are sampled, the crash points per history are enumerated: fault enumeration.",
   note="Models a process death as a prefix of the single O_APPEND write; no claims about kernel or disk failure. API-only (NewHistoryFromFile, Write, Len, GetLine).", ref="DESIGN.md §3 C10"),
 "C11": dict(level="exploration", technique="property-based testing (rapid) with fault injection: generated buffer shapes x modes x open helpers x exit paths (accepts, interrupts, EOF, failing editor, panicking command, injected read error); oracle termios before == after, emulated cursor on a fresh row, default cursor style",
   text="Every way out of Readline is a generated exit path; the child reports tcgetattr before and after the call, and the VT100 emulator fed with everything the library wrote gives the cursor position, the row contents and the last cursor-style sequence at the moment the call returned (screens are snapshotted when the return marker comes out of the pty).",
   note=RIG_NOTE, ref="DESIGN.md §3 C11"),
 "C20": dict(level="exploration", technique="property-based testing (rapid) over harness-owned schedules: SIGWINCH / TIOCSWINSZ / Shell.Printf delivered at generated moments of generated editing scripts; oracles: no crash or deadlock (goroutine-dump based rest detection), differential against the undisturbed run, C04 screen layout for the current width, race detector (thorough)",
   text="The child has no controlling terminal, so the only SIGWINCHs are the ones the check sends; the emulator can withhold cursor reports to keep the main loop inside its redisplay while a disturbance is delivered; a command registered by the harness blocks on request to model 'during command execution'; type-ahead is delivered in the same terminal write as the report an asynchronous redisplay asks for.",
   note=RIG_NOTE, ref="DESIGN.md §3 C20"),
 "C12": dict(level="exploration", technique="property-based testing (rapid): grammar-derived inputrc texts with generated mutations, raw bytes and include graphs, parsed in a child process under a watchdog; native fuzzing (go test -fuzz) in the thorough tier",
   text="Generated-input search for crashes, stack overflows and non-termination of the inputrc parser over mutated grammar-derived programs, raw bytes, option combinations and include graphs with cycles; the call must return nil or an error. Exploration: the input space is unbounded and the oracle is a totality predicate.",
   note="Parse runs in the child process (stack overflow is fatal, loops need a watchdog); inputs bounded to ~1 MiB so a 10 s limit is not honest slowness.", ref="DESIGN.md §3 C12"),
 "C13": dict(level="exploration", technique="property-based testing (rapid): grammar-generated well-formed inputrc programs vs an independent reference evaluator (differential); rapid.MakeFuzz under go test -fuzz in the thorough tier",
   text="Well-formed programs from a grammar are evaluated both by the parser and by a small independent reference evaluator of the same AST; Binds and Vars must agree in both directions (nothing missing, nothing extra). Exploration with a complete oracle for the generated fragment of the language.",
   note="Only the documented notation is generated; sequences compared modulo Meta-x == ESC x. One known finding (nested $if leak) is recognised by its exact mechanism and reported as KNOWN-FINDING.", ref="DESIGN.md §3 C13"),
 "C14": dict(level="exploration", technique="property-based testing (rapid): generated lines x cursor positions x table-driven completers (three prefix variants) x menu key sequences; oracle buffer == before + candidate + after at every input wait, abort restores",
   text="The application completer is table-driven from the generated case, so the harness knows the candidate set; at every input wait the buffer must be the original or B + v + A for a candidate v matching the word part before the cursor under the configured case rule; Ctrl-C on an open menu must restore buffer and cursor without returning.",
   note=RIG_NOTE, ref="DESIGN.md §3 C14"),
 "C15": dict(level="exploration", technique="property-based testing (rapid): generated candidate sets (1..60 values; plain, described, aliased, tagged) x terminal sizes x forward / backward / mixed cycling of length 2N+3; permutation and period oracle on the inserted word",
   text="The word inserted in the line after each menu-complete / menu-complete-backward press is read through the public API; over the first N presses it must be a permutation of the N candidates and the sequence must repeat with period N. Validity predicate (any order is accepted).",
   note=RIG_NOTE, ref="DESIGN.md §3 C15"),
 "C16": dict(level="exploration", technique="property-based testing (rapid): generated buffers x cursor positions x kill commands by name x numeric arguments x kill sequences through real pty sessions; algebraic oracle kill;yank = id, register == removed range, and a second yank after an edit inside the yanked text still inserts the killed text",
   text="Every kill command is reached by name on a private key sequence, one command per read so each intermediate buffer and the kill register are observed through the public API; oracle: one contiguous range removed, register equals it, immediate yank restores, most recent kill is what yank inserts.",
   note=RIG_NOTE + " Display-only variables are drawn per case.", ref="DESIGN.md §3 C16"),
 "C17": dict(level="exploration", technique="property-based testing (rapid), differential: d<motion> vs y<motion> (and v<motion>d / v<motion>y) from identical generated states in two fresh pty sessions",
   text="For generated buffers, cursor positions, motions/text objects and counts, the register after delete must equal the register after yank, yank must leave the buffer unchanged and delete must remove exactly one contiguous occurrence of that text. Differential oracle needs no model of the motions themselves.",
   note=RIG_NOTE + " Keys one per read.", ref="DESIGN.md §3 C17"),
 "C18": dict(level="exploration", technique="property-based testing (rapid), metamorphic: session [B0, K, K^r] typed vs session [B0, record K, replay r times] (r up to 24), emacs and vi macro styles",
   text="Generated key scripts K (printable, control, ESC-prefixed, CSI, quoted-insert, vi command keys) are typed 1+r times in one session and recorded once + replayed r times in another; final buffer, cursor, keymap and returned line must agree. Metamorphic oracle; cases where K itself is not deterministic are discarded and counted.",
   note=RIG_NOTE + " One known finding (lone ESC followed by a key forming an ESC-prefixed binding) excluded by construction and reported from a regress case.", ref="DESIGN.md §3 C18"),
 "C19": dict(level="exploration", technique="property-based testing (rapid) + bounded-exhaustive enumeration: Unescape(Escape(s)) round trip over all single runes 0x00-0xFF, all default bindings, significant triples and random sequences; round trip of the dump commands through a second shell configured from their output; native fuzzing in the thorough tier",
   text="Round-trip oracle Unescape(Escape(s)) == s and Unescape(EscapeMacro(s)) == s, exhaustive for length 1 over 0x00-0xFF, for every sequence bound in a default shell and for triples of notation-significant runes, random beyond; plus agreement of Unescape with an independent decoder of the documented notation.",
   note="Two checks: the codec (pure API, no child) and the dump commands (run with a numeric argument in a real session on the terminal rig; their output becomes the inputrc of a second shell whose binds and variables must equal the first one's).", ref="DESIGN.md §3 C19"),
}

not_applicable_reason = "check not yet registered in this commit (framework under construction; see DESIGN.md §3 for the planned check)"

props = [json.loads(l) for l in open("/verif/properties.jsonl")]
checks, na = [], []
for p in props:
    pid = p["id"]
    if pid in claimed:
        c = claimed[pid]
        checks.append({
            "property_id": pid,
            "quick_cmd": f"./run.sh {pid} quick",
            "thorough_cmd": f"./run.sh {pid} thorough",
            "evidence_file": f"/verif/evidence/{pid}.json",
            "replay_cmd_template": "./run.sh replay {path}",
            "engine": "vcheck",
            "level_claimed": {"category": c["level"], "text": c["text"], "design_ref": c["ref"]},
            "level_note": c["note"],
            "technique": c["technique"],
        })
    else:
        na.append({"property_id": pid, "reason": not_applicable_reason})

manifest = {
 "version": 1,
 "setup_cmd": "./run.sh setup",
 "hooks": {
   "guard": "verif (Go build tag)",
   "enable": "go build -tags verif (done by the driver for the child application cmd/rlapp and the checks)",
   "baseline_off_cmd": "cd /repo && GOFLAGS=-mod=mod GOPROXY=off GOSUMDB=off GOTOOLCHAIN=local go1.26.8 test -json -vet=off -count=1 -timeout 25m ./...",
   "source_commits": hook_commits,
   "add_only": True,
 },
 "engines": [
   {"name": "vcheck", "path": "/verif/harness/cmd/vcheck", "serves_properties": sorted(claimed),
    "kind_free_text": "driver: rebuilds the child application (links /repo with -tags verif) and the rapid-based checks, shards them over processes, merges statistics into evidence, prints VIOLATION / KNOWN-FINDING lines"},
 ],
 "checks": checks,
 "not_applicable": na,
 "notes": "All checks are property-based tests / fuzzing (pgregory.net/rapid v1.3.0, native go fuzzing for byte-level targets) against explicit oracles; see DESIGN.md. Known findings: /verif/known_findings.json. VERIF_SEED selects the rapid seeds (seed*1000+shard+1).",
}
json.dump(manifest, open("/verif/MANIFEST.json", "w"), indent=1)
print("claimed:", sorted(claimed), "not claimed:", len(na))
