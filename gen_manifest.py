#!/usr/bin/env python3
"""Regenerates MANIFEST.json from the table below (kept in one place so the file stays valid)."""
import json, subprocess

hook_commits = ["f1ad3b2"]

claimed = {
 "C02": dict(level="exploration", technique="property-based testing (rapid): generated Unicode strings x chunkings x meta settings through a real pty session; identity oracle",
   text="Generated-input search: thousands of generated printable Unicode strings are typed byte-for-byte into a real Readline call on a pseudo-terminal under generated read chunkings and meta settings; the returned line must equal the typed text. Exploration is the right level: the domain (all strings x chunkings x settings) is unbounded and the oracle is exact (identity).",
   note="Trusts the rig (pty, gate on core.Stdin, lock-step driver) and the kernel tty layer in raw mode; preconditions from the documentation (autopairs/autocomplete/autosuggest off, no user binds).", ref="DESIGN.md §3 C02"),
}

not_applicable_reason = "check not yet registered in this commit (framework under construction; see DESIGN.md §3 for the planned check)"

props = [json.loads(l) for l in open("/verif/properties.jsonl")]
checks, na = [], []
for p in props:
    pid = p["id"]
    if pid in claimed:
        c = claimed[pid]
        checks.append({
            "property_id": pid,
            "quick_cmd": f"./run.sh {pid} quick",
            "thorough_cmd": f"./run.sh {pid} thorough",
            "evidence_file": f"/verif/evidence/{pid}.json",
            "replay_cmd_template": "./run.sh replay {path}",
            "engine": "vcheck",
            "level_claimed": {"category": c["level"], "text": c["text"], "design_ref": c["ref"]},
            "level_note": c["note"],
            "technique": c["technique"],
        })
    else:
        na.append({"property_id": pid, "reason": not_applicable_reason})

manifest = {
 "version": 1,
 "setup_cmd": "./run.sh setup",
 "hooks": {
   "guard": "verif (Go build tag)",
   "enable": "go build -tags verif (done by the driver for the child application cmd/rlapp and the checks)",
   "baseline_off_cmd": "cd /repo && GOFLAGS=-mod=mod GOPROXY=off GOSUMDB=off GOTOOLCHAIN=local go1.26.8 test -json -vet=off -count=1 -timeout 25m ./...",
   "source_commits": hook_commits,
   "add_only": True,
 },
 "engines": [
   {"name": "vcheck", "path": "/verif/harness/cmd/vcheck", "serves_properties": sorted(claimed),
    "kind_free_text": "driver: rebuilds the child application (links /repo with -tags verif) and the rapid-based checks, shards them over processes, merges statistics into evidence, prints VIOLATION / KNOWN-FINDING lines"},
 ],
 "checks": checks,
 "not_applicable": na,
 "notes": "All checks are property-based tests / fuzzing (pgregory.net/rapid v1.3.0, native go fuzzing for byte-level targets) against explicit oracles; see DESIGN.md. Known findings: /verif/known_findings.json. VERIF_SEED selects the rapid seeds (seed*1000+shard+1).",
}
json.dump(manifest, open("/verif/MANIFEST.json", "w"), indent=1)
print("claimed:", sorted(claimed), "not claimed:", len(na))
